#!/bin/bash
# usage: run.sh <harness> [timeout_s] [slot] [extra kani args...]
h=$1; t=${2:-300}; slot=${3:-s0}; shift; shift; shift
cd /var/tmp/xtprobe/xt
( ulimit -v 24000000; CARGO_NET_OFFLINE=true /usr/bin/time -f "wall=%e maxrss_kb=%M" timeout $t cargo kani -Z stubbing --target-dir /var/tmp/xtprobe/t/$slot --harness "$h" "$@" > /var/tmp/xtprobe/logs/$h.$slot.log 2>&1; echo "exit=$?" >> /var/tmp/xtprobe/logs/$h.$slot.log )
grep -E 'VERIFICATION|Verification Time|exit=|^error|wall=|Status: (FAILURE|ERROR)|Failed Checks:' /var/tmp/xtprobe/logs/$h.$slot.log | sort | uniq -c | head -20
