use super::*;
use rmp_serde::ghost as g;

#[kani::proof]
#[kani::unwind(6)]
fn msgpack_detect_never_hard_fails_on_eof() {
	let buf: [u8; 3] = kani::any();
	let len: usize = kani::any();
	kani::assume(len <= 3);
	let r = input_matches(Ref::Slice(&buf[..len]));
	// a slice source cannot report an I/O error, so detection must not fail
	assert!(r.is_ok());
	if let Ok(true) = r {
		let m = Marker::from_u8(buf[0]);
		assert!(matches!(m, Marker::FixArray(_) | Marker::Array16 | Marker::Array32 | Marker::FixMap(_) | Marker::Map16 | Marker::Map32));
	}
	unsafe { assert!(!g::USED_WITHOUT_DEPTH); assert!(g::DESERIALIZERS == 0 || g::DEPTH_SEEN == 1024); }
	core::mem::forget(r);
}

static mut READS: usize = 0;
static mut DOCS_OUT: usize = 0;
static mut MAX_LAG_VIOLATION: bool = false;

struct Src<'a> { data: &'a [u8], pos: usize }
impl<'a> Read for Src<'a> {
	fn read(&mut self, buf: &mut [u8]) -> io::Result<usize> {
		unsafe {
			READS += 1;
			// one byte per read == at most one document per read in the model:
			// when byte k is requested, documents 0..k-2 must already be out
			if self.pos >= 2 && DOCS_OUT + 2 < self.pos { MAX_LAG_VIOLATION = true; }
		}
		if self.pos == self.data.len() || buf.is_empty() { return Ok(0); }
		buf[0] = self.data[self.pos];
		self.pos += 1;
		Ok(1)
	}
}

struct RecOut;
impl crate::Output for RecOut {
	fn transcode_from<'de, D, E>(&mut self, de: D) -> crate::Result<()>
	where D: de::Deserializer<'de, Error = E>, E: de::Error + Send + Sync + 'static {
		de::IgnoredAny::deserialize(de)?;
		unsafe { DOCS_OUT += 1; }
		Ok(())
	}
	fn transcode_value<S: ser::Serialize>(&mut self, _v: S) -> crate::Result<()> { unreachable!() }
	fn flush(&mut self) -> io::Result<()> { Ok(()) }
}

#[kani::proof]
#[kani::unwind(6)]
fn msgpack_reader_loop_streams() {
	let buf: [u8; 3] = kani::any();
	let len: usize = kani::any();
	kani::assume(len <= 3);
	let r = transcode(input::Handle::from_reader(Src { data: &buf[..len], pos: 0 }), RecOut);
	unsafe {
		assert!(!MAX_LAG_VIOLATION);
		assert!(!g::USED_WITHOUT_DEPTH);
		if r.is_ok() { assert!(DOCS_OUT == g::DOCS); }
	}
	core::mem::forget(r);
}
