use super::*;

#[kani::proof]
#[kani::unwind(6)]
fn json_match_str_len3() {
	let buf: [u8; 3] = kani::any();
	let len: usize = kani::any();
	kani::assume(len <= 3);
	// ASCII only so that from_utf8 is trivially fine
	kani::assume(buf[0] < 0x80 && buf[1] < 0x80 && buf[2] < 0x80);
	let s = unsafe { str::from_utf8_unchecked(&buf[..len]) };
	let r = match_input_str(s);
	if len == 0 { assert!(r.is_err()); }
	if len == 1 && buf[0] == b'7' { assert!(r.is_ok()); }
	core::mem::forget(r);
}

#[path = "/var/tmp/xtprobe/h/mockde.rs"]
mod mockde;
use mockde::*;

#[kani::proof]
#[kani::unwind(8)]
fn json_output_framing_two_docs() {
	let mut out = Output::new(LogW { buf: [0; 24], n: 0 });
	let k1: u8 = kani::any();
	kani::assume(k1 == 1 || k1 == 2);
	let k2: u8 = kani::any();
	kani::assume(k2 == 1 || k2 == 2);
	let r1 = crate::Output::transcode_from(&mut out, TDe { kind: k1 });
	assert!(r1.is_ok());
	let n1 = out.0.n;
	assert!(n1 == 5 && out.0.buf[4] == b'\n');
	let r2 = crate::Output::transcode_from(&mut out, TDe { kind: k2 });
	assert!(r2.is_ok());
	assert!(out.0.n == 10 && out.0.buf[9] == b'\n');
	assert!(out.0.buf[0] == if k1 == 1 { b't' } else { b'n' });
	assert!(out.0.buf[5] == if k2 == 1 { b't' } else { b'n' });
}
