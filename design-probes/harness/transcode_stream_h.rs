use super::*;
use serde::de::{DeserializeSeed, MapAccess, SeqAccess};
use serde::ser::Impossible;
use std::cell::Cell;

const L: usize = 6;

#[derive(Clone, Copy, PartialEq, Eq)]
enum Ev {
	Unit,
	Bool(bool),
	I8(i8),
	I64(i64),
	U16(u16),
	U64(u64),
	F32(u32),
	F64(u64),
	Seq,
	Map,
	End,
	DeFail,
}

impl kani::Arbitrary for Ev {
	fn any() -> Self {
		match kani::any::<u8>() {
			0 => Ev::I8(kani::any()),
			1 => Ev::Seq,
			2 => Ev::Map,
			3 => Ev::End,
			_ => Ev::DeFail,
		}
	}
}

#[derive(Debug)]
enum DErr {
	Genuine,
	Synthetic,
}
#[derive(Debug)]
enum SErr {
	Genuine,
	Synthetic,
}
impl fmt::Display for DErr {
	fn fmt(&self, _: &mut fmt::Formatter) -> fmt::Result {
		Ok(())
	}
}
impl fmt::Display for SErr {
	fn fmt(&self, _: &mut fmt::Formatter) -> fmt::Result {
		Ok(())
	}
}
impl error::Error for DErr {}
impl error::Error for SErr {}
impl de::Error for DErr {
	fn custom<T: fmt::Display>(_: T) -> Self {
		DErr::Synthetic
	}
}
impl ser::Error for SErr {
	fn custom<T: fmt::Display>(_: T) -> Self {
		SErr::Synthetic
	}
}

struct World {
	pos: Cell<usize>,
	mailbox: Cell<Option<Ev>>,
	mismatch: Cell<bool>,
	n: Cell<usize>,
	calls: Cell<usize>,
	fail_at: usize,
	ser_failed: Cell<bool>,
	de_failed: Cell<bool>,
}

impl World {
	fn next(&self) -> Result<Ev, DErr> {
		let p = self.pos.get();
		if p >= L {
			self.de_failed.set(true);
			return Err(DErr::Genuine); // EOF
		}
		self.pos.set(p + 1);
		let e: Ev = kani::any();
		if self.mailbox.get().is_some() { self.mismatch.set(true); }
		self.mailbox.set(Some(e));
		Ok(e)
	}
	fn call(&self) -> Result<(), SErr> {
		let c = self.calls.get();
		self.calls.set(c + 1);
		if c == self.fail_at {
			self.ser_failed.set(true);
			Err(SErr::Genuine)
		} else {
			Ok(())
		}
	}
	fn push(&self, e: Ev) {
		if self.mailbox.get() != Some(e) { self.mismatch.set(true); }
		self.mailbox.set(None);
		self.n.set(self.n.get() + 1);
	}
	fn scalar(&self, e: Ev) -> Result<(), SErr> {
		self.call()?;
		self.push(e);
		Ok(())
	}
}

// ---------------- mock deserializer
struct MDe<'a>(&'a World, usize);
static mut DMAX: usize = 2;

impl<'de, 'a> Deserializer<'de> for MDe<'a> {
	type Error = DErr;
	fn deserialize_any<V: de::Visitor<'de>>(self, v: V) -> Result<V::Value, DErr> {
		match self.0.next()? {
			Ev::Unit => v.visit_unit(),
			Ev::Bool(b) => v.visit_bool(b),
			Ev::I8(x) => v.visit_i8(x),
			Ev::I64(x) => v.visit_i64(x),
			Ev::U16(x) => v.visit_u16(x),
			Ev::U64(x) => v.visit_u64(x),
			Ev::F32(x) => v.visit_f32(f32::from_bits(x)),
			Ev::F64(x) => v.visit_f64(f64::from_bits(x)),
			Ev::Seq if self.1 < unsafe { DMAX } => v.visit_seq(MAcc(self.0, self.1 + 1)),
			Ev::Map if self.1 < unsafe { DMAX } => v.visit_map(MAcc(self.0, self.1 + 1)),
			Ev::Seq | Ev::Map => { kani::assume(false); unreachable!() }
			Ev::End | Ev::DeFail => {
				self.0.de_failed.set(true);
				Err(DErr::Genuine)
			}
		}
	}
	serde::forward_to_deserialize_any! {
		bool i8 i16 i32 i64 i128 u8 u16 u32 u64 u128 f32 f64 char str string
		bytes byte_buf option unit unit_struct newtype_struct seq tuple
		tuple_struct map struct enum identifier ignored_any
	}
}

struct MAcc<'a>(&'a World, usize);

impl<'de, 'a> SeqAccess<'de> for MAcc<'a> {
	type Error = DErr;
	fn next_element_seed<T: DeserializeSeed<'de>>(&mut self, seed: T) -> Result<Option<T::Value>, DErr> {
		if kani::any() {
			// end of collection: announce End to the monitor
			if self.0.mailbox.get().is_some() { self.0.mismatch.set(true); }
			self.0.mailbox.set(Some(Ev::End));
			self.0.pos.set(self.0.pos.get() + 1);
			return Ok(None);
		}
		seed.deserialize(MDe(self.0, self.1)).map(Some)
	}
}
impl<'de, 'a> MapAccess<'de> for MAcc<'a> {
	type Error = DErr;
	fn next_key_seed<K: DeserializeSeed<'de>>(&mut self, seed: K) -> Result<Option<K::Value>, DErr> {
		if kani::any() {
			// end of collection: announce End to the monitor
			if self.0.mailbox.get().is_some() { self.0.mismatch.set(true); }
			self.0.mailbox.set(Some(Ev::End));
			self.0.pos.set(self.0.pos.get() + 1);
			return Ok(None);
		}
		seed.deserialize(MDe(self.0, self.1)).map(Some)
	}
	fn next_value_seed<V: DeserializeSeed<'de>>(&mut self, seed: V) -> Result<V::Value, DErr> {
		seed.deserialize(MDe(self.0, self.1))
	}
}

// ---------------- mock serializer
struct MSer<'a>(&'a World);

impl<'a> Serializer for MSer<'a> {
	type Ok = ();
	type Error = SErr;
	type SerializeSeq = MColl<'a>;
	type SerializeTuple = Impossible<(), SErr>;
	type SerializeTupleStruct = Impossible<(), SErr>;
	type SerializeTupleVariant = Impossible<(), SErr>;
	type SerializeMap = MColl<'a>;
	type SerializeStruct = Impossible<(), SErr>;
	type SerializeStructVariant = Impossible<(), SErr>;

	fn serialize_bool(self, v: bool) -> Result<(), SErr> { self.0.scalar(Ev::Bool(v)) }
	fn serialize_i8(self, v: i8) -> Result<(), SErr> { self.0.scalar(Ev::I8(v)) }
	fn serialize_i16(self, _: i16) -> Result<(), SErr> { unreachable!() }
	fn serialize_i32(self, _: i32) -> Result<(), SErr> { unreachable!() }
	fn serialize_i64(self, v: i64) -> Result<(), SErr> { self.0.scalar(Ev::I64(v)) }
	fn serialize_u8(self, _: u8) -> Result<(), SErr> { unreachable!() }
	fn serialize_u16(self, v: u16) -> Result<(), SErr> { self.0.scalar(Ev::U16(v)) }
	fn serialize_u32(self, _: u32) -> Result<(), SErr> { unreachable!() }
	fn serialize_u64(self, v: u64) -> Result<(), SErr> { self.0.scalar(Ev::U64(v)) }
	fn serialize_f32(self, v: f32) -> Result<(), SErr> { self.0.scalar(Ev::F32(v.to_bits())) }
	fn serialize_f64(self, v: f64) -> Result<(), SErr> { self.0.scalar(Ev::F64(v.to_bits())) }
	fn serialize_char(self, _: char) -> Result<(), SErr> { unreachable!() }
	fn serialize_str(self, _: &str) -> Result<(), SErr> { unreachable!() }
	fn serialize_bytes(self, _: &[u8]) -> Result<(), SErr> { unreachable!() }
	fn serialize_none(self) -> Result<(), SErr> { unreachable!() }
	fn serialize_some<T: ?Sized + Serialize>(self, _: &T) -> Result<(), SErr> { unreachable!() }
	fn serialize_unit(self) -> Result<(), SErr> { self.0.scalar(Ev::Unit) }
	fn serialize_unit_struct(self, _: &'static str) -> Result<(), SErr> { unreachable!() }
	fn serialize_unit_variant(self, _: &'static str, _: u32, _: &'static str) -> Result<(), SErr> { unreachable!() }
	fn serialize_newtype_struct<T: ?Sized + Serialize>(self, _: &'static str, _: &T) -> Result<(), SErr> { unreachable!() }
	fn serialize_newtype_variant<T: ?Sized + Serialize>(self, _: &'static str, _: u32, _: &'static str, _: &T) -> Result<(), SErr> { unreachable!() }
	fn serialize_seq(self, _: Option<usize>) -> Result<MColl<'a>, SErr> {
		self.0.scalar(Ev::Seq)?;
		Ok(MColl(self.0))
	}
	fn serialize_tuple(self, _: usize) -> Result<Self::SerializeTuple, SErr> { unreachable!() }
	fn serialize_tuple_struct(self, _: &'static str, _: usize) -> Result<Self::SerializeTupleStruct, SErr> { unreachable!() }
	fn serialize_tuple_variant(self, _: &'static str, _: u32, _: &'static str, _: usize) -> Result<Self::SerializeTupleVariant, SErr> { unreachable!() }
	fn serialize_map(self, _: Option<usize>) -> Result<MColl<'a>, SErr> {
		self.0.scalar(Ev::Map)?;
		Ok(MColl(self.0))
	}
	fn serialize_struct(self, _: &'static str, _: usize) -> Result<Self::SerializeStruct, SErr> { unreachable!() }
	fn serialize_struct_variant(self, _: &'static str, _: u32, _: &'static str, _: usize) -> Result<Self::SerializeStructVariant, SErr> { unreachable!() }
}

struct MColl<'a>(&'a World);

impl<'a> MColl<'a> {
	fn item<T: ?Sized + Serialize>(&mut self, v: &T) -> Result<(), SErr> {
		self.0.call()?; // e.g. writing a separator
		v.serialize(MSer(self.0))?;
		self.0.call() // e.g. writing a trailer
	}
}
impl<'a> SerializeSeq for MColl<'a> {
	type Ok = ();
	type Error = SErr;
	fn serialize_element<T: ?Sized + Serialize>(&mut self, v: &T) -> Result<(), SErr> { self.item(v) }
	fn end(self) -> Result<(), SErr> { self.0.scalar(Ev::End) }
}
impl<'a> SerializeMap for MColl<'a> {
	type Ok = ();
	type Error = SErr;
	fn serialize_key<T: ?Sized + Serialize>(&mut self, v: &T) -> Result<(), SErr> { self.item(v) }
	fn serialize_value<T: ?Sized + Serialize>(&mut self, v: &T) -> Result<(), SErr> { self.item(v) }
	fn end(self) -> Result<(), SErr> { self.0.scalar(Ev::End) }
}

fn world() -> World {
	World {
		pos: Cell::new(0),
		mailbox: Cell::new(None),
		mismatch: Cell::new(false),
		n: Cell::new(0),
		calls: Cell::new(0),
		fail_at: kani::any(),
		ser_failed: Cell::new(false),
		de_failed: Cell::new(false),
	}
}

#[kani::proof]
#[kani::unwind(6)]
fn transcode_mon_d2() {
	let w = world();
	let r = transcode(MSer(&w), MDe(&w, 0));
	match r {
		Ok(()) => {
			assert!(!w.ser_failed.get() && !w.de_failed.get());
			// fidelity: everything consumed was forwarded, in order, same type and value
			assert!(w.n.get() == w.pos.get());
			assert!(!w.mismatch.get());
			assert!(w.mailbox.get().is_none());
		}
		Err(Error::Ser(s, d)) => {
			assert!(w.ser_failed.get() && !w.de_failed.get());
			assert!(matches!(s, SErr::Genuine));
			assert!(matches!(d, DErr::Synthetic));
		}
		Err(Error::De(d)) => {
			assert!(w.de_failed.get() && !w.ser_failed.get());
			assert!(matches!(d, DErr::Genuine));
		}
	}
}

#[kani::proof]
#[kani::unwind(6)]
fn transcode_mon_d1() {
	unsafe { DMAX = 1; }
	transcode_mon_d2();
}

// ---- D1a: every scalar kind the transcoder implements, one event, all values
struct ScalarDe { kind: u8, a: u128, s: [u8; 2], n: usize }
impl<'de> Deserializer<'de> for ScalarDe {
	type Error = DErr;
	fn deserialize_any<V: de::Visitor<'de>>(self, v: V) -> Result<V::Value, DErr> {
		let a = self.a;
		match self.kind {
			0 => v.visit_unit(),
			1 => v.visit_bool(a & 1 == 1),
			2 => v.visit_i8(a as i8), 3 => v.visit_i16(a as i16), 4 => v.visit_i32(a as i32), 5 => v.visit_i64(a as i64), 6 => v.visit_i128(a as i128),
			7 => v.visit_u8(a as u8), 8 => v.visit_u16(a as u16), 9 => v.visit_u32(a as u32), 10 => v.visit_u64(a as u64), 11 => v.visit_u128(a),
			12 => v.visit_f32(f32::from_bits(a as u32)), 13 => v.visit_f64(f64::from_bits(a as u64)),
			14 => v.visit_char(char::from_u32((a as u32) % 0xD800).unwrap()),
			15 => v.visit_str(if self.n == 0 { "" } else if self.s[0] < 0x80 { core::str::from_utf8(&self.s[..1]).unwrap() } else { "\u{e9}" }),
			_ => v.visit_bytes(&self.s[..self.n]),
		}
	}
	serde::forward_to_deserialize_any! {
		bool i8 i16 i32 i64 i128 u8 u16 u32 u64 u128 f32 f64 char str string
		bytes byte_buf option unit unit_struct newtype_struct seq tuple
		tuple_struct map struct enum identifier ignored_any
	}
}
struct ScalarSer { kind: u8, a: u128, s: [u8; 2], n: usize }
macro_rules! exp { ($self:ident, $k:expr, $cond:expr) => {{ assert!($self.kind == $k); assert!($cond); Ok(()) }} }
impl Serializer for ScalarSer {
	type Ok = (); type Error = SErr;
	type SerializeSeq = Impossible<(), SErr>; type SerializeTuple = Impossible<(), SErr>; type SerializeTupleStruct = Impossible<(), SErr>;
	type SerializeTupleVariant = Impossible<(), SErr>; type SerializeMap = Impossible<(), SErr>; type SerializeStruct = Impossible<(), SErr>; type SerializeStructVariant = Impossible<(), SErr>;
	fn serialize_bool(self, v: bool) -> Result<(), SErr> { exp!(self, 1, v == (self.a & 1 == 1)) }
	fn serialize_i8(self, v: i8) -> Result<(), SErr> { exp!(self, 2, v == self.a as i8) }
	fn serialize_i16(self, v: i16) -> Result<(), SErr> { exp!(self, 3, v == self.a as i16) }
	fn serialize_i32(self, v: i32) -> Result<(), SErr> { exp!(self, 4, v == self.a as i32) }
	fn serialize_i64(self, v: i64) -> Result<(), SErr> { exp!(self, 5, v == self.a as i64) }
	fn serialize_i128(self, v: i128) -> Result<(), SErr> { exp!(self, 6, v == self.a as i128) }
	fn serialize_u8(self, v: u8) -> Result<(), SErr> { exp!(self, 7, v == self.a as u8) }
	fn serialize_u16(self, v: u16) -> Result<(), SErr> { exp!(self, 8, v == self.a as u16) }
	fn serialize_u32(self, v: u32) -> Result<(), SErr> { exp!(self, 9, v == self.a as u32) }
	fn serialize_u64(self, v: u64) -> Result<(), SErr> { exp!(self, 10, v == self.a as u64) }
	fn serialize_u128(self, v: u128) -> Result<(), SErr> { exp!(self, 11, v == self.a) }
	fn serialize_f32(self, v: f32) -> Result<(), SErr> { exp!(self, 12, v.to_bits() == self.a as u32) }
	fn serialize_f64(self, v: f64) -> Result<(), SErr> { exp!(self, 13, v.to_bits() == self.a as u64) }
	fn serialize_char(self, v: char) -> Result<(), SErr> { exp!(self, 14, v as u32 == (self.a as u32) % 0xD800) }
	fn serialize_str(self, v: &str) -> Result<(), SErr> { exp!(self, 15, if self.n == 0 { v.is_empty() } else if self.s[0] < 0x80 { v.len() == 1 && v.as_bytes()[0] == self.s[0] } else { v.len() == 2 }) }
	fn serialize_bytes(self, v: &[u8]) -> Result<(), SErr> { exp!(self, 16, v.len() == self.n && (self.n < 1 || v[0] == self.s[0]) && (self.n < 2 || v[1] == self.s[1])) }
	fn serialize_none(self) -> Result<(), SErr> { unreachable!() }
	fn serialize_some<T: ?Sized + Serialize>(self, _: &T) -> Result<(), SErr> { unreachable!() }
	fn serialize_unit(self) -> Result<(), SErr> { exp!(self, 0, true) }
	fn serialize_unit_struct(self, _: &'static str) -> Result<(), SErr> { unreachable!() }
	fn serialize_unit_variant(self, _: &'static str, _: u32, _: &'static str) -> Result<(), SErr> { unreachable!() }
	fn serialize_newtype_struct<T: ?Sized + Serialize>(self, _: &'static str, _: &T) -> Result<(), SErr> { unreachable!() }
	fn serialize_newtype_variant<T: ?Sized + Serialize>(self, _: &'static str, _: u32, _: &'static str, _: &T) -> Result<(), SErr> { unreachable!() }
	fn serialize_seq(self, _: Option<usize>) -> Result<Self::SerializeSeq, SErr> { unreachable!() }
	fn serialize_tuple(self, _: usize) -> Result<Self::SerializeTuple, SErr> { unreachable!() }
	fn serialize_tuple_struct(self, _: &'static str, _: usize) -> Result<Self::SerializeTupleStruct, SErr> { unreachable!() }
	fn serialize_tuple_variant(self, _: &'static str, _: u32, _: &'static str, _: usize) -> Result<Self::SerializeTupleVariant, SErr> { unreachable!() }
	fn serialize_map(self, _: Option<usize>) -> Result<Self::SerializeMap, SErr> { unreachable!() }
	fn serialize_struct(self, _: &'static str, _: usize) -> Result<Self::SerializeStruct, SErr> { unreachable!() }
	fn serialize_struct_variant(self, _: &'static str, _: u32, _: &'static str, _: usize) -> Result<Self::SerializeStructVariant, SErr> { unreachable!() }
}

#[kani::proof]
#[kani::unwind(4)]
fn transcode_every_scalar_kind() {
	let kind: u8 = kani::any();
	kani::assume(kind <= 16);
	let a: u128 = kani::any();
	let s: [u8; 2] = kani::any();
	let n: usize = kani::any();
	kani::assume(n <= 2);
	let r = transcode(ScalarSer { kind, a, s, n }, ScalarDe { kind, a, s, n });
	assert!(r.is_ok());
}
