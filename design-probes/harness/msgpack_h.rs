use super::*;

#[kani::proof]
#[kani::unwind(6)]
fn nvs_d1_len5() {
	let buf: [u8; 5] = kani::any();
	let len: usize = kani::any();
	kani::assume(len <= 5);
	match next_value_size(&buf[..len], 1) {
		Ok(n) => assert!(n <= len),
		Err(_) => {}
	}
}

#[kani::proof]
#[kani::unwind(5)]
fn nvs_d2_len4() {
	let buf: [u8; 4] = kani::any();
	let len: usize = kani::any();
	kani::assume(len <= 4);
	match next_value_size(&buf[..len], 2) {
		Ok(n) => assert!(n <= len),
		Err(_) => {}
	}
}

// ---- modular (assume-guarantee) step: next_value_size body with callee contracts
fn seq_contract<N: Into<u32>>(input: &[u8], _count: N, _d: usize) -> Result<usize, ReadSizeError> {
	if kani::any() {
		let t: usize = kani::any();
		kani::assume(t <= input.len());
		Ok(t)
	} else {
		Err(match kani::any::<u8>() % 3 {
			0 => ReadSizeError::Truncated,
			1 => ReadSizeError::InvalidMarker,
			_ => ReadSizeError::DepthLimitExceeded,
		})
	}
}

#[kani::proof]
#[kani::stub(total_seq_size, seq_contract)]
#[kani::stub(total_map_size, seq_contract)]
#[kani::unwind(2)]
fn nvs_step_any_len() {
	// arbitrary-length slice up to 16 bytes, arbitrary depth
	let buf: [u8; 16] = kani::any();
	let len: usize = kani::any();
	kani::assume(len <= 16);
	let d: usize = kani::any();
	match next_value_size(&buf[..len], d) {
		Ok(n) => {
			assert!(n <= len);
			assert!(len == 0 || n >= 1);
		}
		Err(_) => {}
	}
}

fn nvs_contract(input: &[u8], _d: usize) -> Result<usize, ReadSizeError> {
	if kani::any() {
		let t: usize = kani::any();
		kani::assume(t <= input.len());
		kani::assume(input.is_empty() || t >= 1);
		Ok(t)
	} else {
		Err(ReadSizeError::Truncated)
	}
}

#[kani::proof]
#[kani::stub(next_value_size, nvs_contract)]
#[kani::unwind(10)]
fn seq_step_len8() {
	let buf: [u8; 8] = kani::any();
	let len: usize = kani::any();
	kani::assume(len <= 8);
	let d: usize = kani::any();
	kani::assume(d >= 1);
	let count: u32 = kani::any();
	match total_seq_size(&buf[..len], count, d) {
		Ok(n) => assert!(n <= len),
		Err(_) => {}
	}
}

#[kani::proof]
#[kani::stub(total_seq_size, seq_contract)]
#[kani::unwind(2)]
fn map_step() {
	let buf: [u8; 8] = kani::any();
	let len: usize = kani::any();
	kani::assume(len <= 8);
	let d: usize = kani::any();
	let pairs: u32 = kani::any();
	match total_map_size(&buf[..len], pairs, d) {
		Ok(n) => assert!(n <= len),
		Err(_) => {}
	}
}

// ---- differential vs rmp_serde, scalars (depth 1: collections rejected by both)
fn rmp_consumed(input: &[u8], d: usize) -> Result<usize, ()> {
	let mut r = input;
	let res = {
		let mut de = rmp_serde::Deserializer::new(&mut r);
		de.set_max_depth(d);
		let res = de::IgnoredAny::deserialize(&mut de).is_ok();
		core::mem::forget(de);
		res
	};
	if res { Ok(input.len() - r.len()) } else { Err(()) }
}

#[kani::proof]
#[kani::unwind(7)]
fn diff_rmp_d1_len5() {
	let buf: [u8; 5] = kani::any();
	let len: usize = kani::any();
	kani::assume(len >= 1 && len <= 5);
	let input = &buf[..len];
	let a = next_value_size(input, 1);
	let b = rmp_consumed(input, 1);
	match (a, b) {
		(Ok(n), Ok(m)) => assert!(n == m),
		(Ok(_), Err(())) => {
			// allowed only for ext types / invalid utf8? record as cover
			kani::cover!(true, "xt accepts, rmp rejects");
		}
		(Err(_), Ok(_)) => assert!(false, "xt rejects what rmp accepts"),
		(Err(_), Err(())) => {}
	}
}

#[kani::proof]
#[kani::unwind(11)]
fn diff_rmp_fixed_width_scalars_len9() {
	let buf: [u8; 9] = kani::any();
	let len: usize = kani::any();
	kani::assume(len >= 1 && len <= 9);
	let m = buf[0];
	kani::assume(m < 0x80 || m >= 0xe0 || m == 0xc0 || m == 0xc2 || m == 0xc3 || (m >= 0xca && m <= 0xd3));
	let input = &buf[..len];
	let a = next_value_size(input, 1);
	let b = rmp_consumed(input, 1);
	match (a, b) {
		(Ok(n), Ok(k)) => assert!(n == k),
		(Err(_), Err(())) => {}
		_ => assert!(false, "verdicts differ"),
	}
}

#[kani::proof]
#[kani::unwind(5)]
fn diff_rmp_small_scalars_len3() {
	let buf: [u8; 3] = kani::any();
	let len: usize = kani::any();
	kani::assume(len >= 1 && len <= 3);
	let m = buf[0];
	kani::assume(m < 0x80 || m >= 0xe0 || m == 0xc0 || m == 0xc2 || m == 0xc3 || m == 0xcc || m == 0xcd || m == 0xd0 || m == 0xd1);
	let input = &buf[..len];
	let a = next_value_size(input, 1);
	let mut r = input;
	let mut de = rmp_serde::Deserializer::new(&mut r);
	de.set_max_depth(1);
	let res = de::IgnoredAny::deserialize(&mut de);
	let ok = res.is_ok();
	core::mem::forget(res);
	core::mem::forget(de);
	let consumed = len - r.len();
	match a {
		Ok(n) => assert!(ok && n == consumed),
		Err(_) => assert!(!ok),
	}
}
