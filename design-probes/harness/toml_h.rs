use super::*;

struct CountW { n: usize }
impl Write for CountW {
	fn write(&mut self, b: &[u8]) -> io::Result<usize> { self.n += b.len(); Ok(b.len()) }
	fn flush(&mut self) -> io::Result<()> { Ok(()) }
}

#[kani::proof]
#[kani::unwind(6)]
fn toml_output_scalar_roots_and_second_use() {
	let mut out = Output::new(CountW { n: 0 });
	let v = match kani::any::<u8>() % 4 {
		0 => crate::transcode::Value::Bool(kani::any()),
		1 => crate::transcode::Value::I64(kani::any()),
		2 => crate::transcode::Value::Unit,
		_ => crate::transcode::Value::Seq(Vec::new()),
	};
	let r1 = crate::Output::transcode_value(&mut out, &v);
	assert!(r1.is_err());
	assert!(out.w.n == 0);
	core::mem::forget(r1);
	let r2 = crate::Output::transcode_value(&mut out, &crate::transcode::Value::Bool(true));
	assert!(r2.is_err());
	assert!(out.w.n == 0);
	core::mem::forget(r2);
	core::mem::forget(v);
}

use std::cell::Cell;
#[derive(Debug)]
struct TErr;
impl fmt::Display for TErr { fn fmt(&self, _: &mut fmt::Formatter) -> fmt::Result { Ok(()) } }
impl error::Error for TErr {}
impl de::Error for TErr { fn custom<T: fmt::Display>(_: T) -> Self { TErr } }

struct TDe<'a> { used: &'a Cell<bool>, kind: u8 }
impl<'de, 'a> de::Deserializer<'de> for TDe<'a> {
	type Error = TErr;
	fn deserialize_any<V: de::Visitor<'de>>(self, v: V) -> Result<V::Value, TErr> {
		self.used.set(true);
		match self.kind {
			0 => Err(TErr),
			1 => v.visit_bool(true),
			2 => v.visit_i64(7),
			_ => v.visit_unit(),
		}
	}
	serde::forward_to_deserialize_any! {
		bool i8 i16 i32 i64 i128 u8 u16 u32 u64 u128 f32 f64 char str string
		bytes byte_buf option unit unit_struct newtype_struct seq tuple
		tuple_struct map struct enum identifier ignored_any
	}
}

#[kani::proof]
#[kani::unwind(6)]
fn toml_output_once_and_root() {
	let mut out = Output::new(CountW { n: 0 });
	let u1 = Cell::new(false);
	let k1: u8 = kani::any();
	kani::assume(k1 <= 3);
	let r1 = crate::Output::transcode_from(&mut out, TDe { used: &u1, kind: k1 });
	assert!(r1.is_err());
	assert!(out.w.n == 0);
	assert!(out.used);
	core::mem::forget(r1);
	let u2 = Cell::new(false);
	let k2: u8 = kani::any();
	kani::assume(k2 <= 3);
	let r2 = crate::Output::transcode_from(&mut out, TDe { used: &u2, kind: k2 });
	assert!(r2.is_err());
	assert!(!u2.get());
	assert!(out.w.n == 0);
	core::mem::forget(r2);
}
