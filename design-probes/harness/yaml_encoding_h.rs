use super::*;

/// BufRead over a byte slice that hands out nondeterministically short windows.
struct Chunky<'a> {
	data: &'a [u8],
	pos: usize,
	win: usize,
}
impl<'a> Chunky<'a> {
	fn new(data: &'a [u8]) -> Self {
		Chunky { data, pos: 0, win: 0 }
	}
}
impl<'a> Read for Chunky<'a> {
	fn read(&mut self, buf: &mut [u8]) -> io::Result<usize> {
		let avail = self.fill_buf()?;
		let n = min(avail.len(), buf.len());
		buf[..n].copy_from_slice(&avail[..n]);
		self.consume(n);
		Ok(n)
	}
}
impl<'a> BufRead for Chunky<'a> {
	fn fill_buf(&mut self) -> io::Result<&[u8]> {
		let rest = self.data.len() - self.pos;
		if rest == 0 {
			return Ok(&[]);
		}
		if self.win == 0 {
			let k: usize = kani::any();
			kani::assume(k >= 1 && k <= rest);
			self.win = k;
		}
		Ok(&self.data[self.pos..self.pos + self.win])
	}
	fn consume(&mut self, amt: usize) {
		assert!(amt <= self.win);
		self.pos += amt;
		self.win -= amt;
	}
}

/// Reference UTF-8 encoder (spec table), independent of core::char.
fn ref_utf8(c: u32, out: &mut [u8; 16], n: &mut usize) {
	if c < 0x80 {
		out[*n] = c as u8;
		*n += 1;
	} else if c < 0x800 {
		out[*n] = 0xC0 | (c >> 6) as u8;
		out[*n + 1] = 0x80 | (c & 0x3F) as u8;
		*n += 2;
	} else if c < 0x10000 {
		out[*n] = 0xE0 | (c >> 12) as u8;
		out[*n + 1] = 0x80 | ((c >> 6) & 0x3F) as u8;
		out[*n + 2] = 0x80 | (c & 0x3F) as u8;
		*n += 3;
	} else {
		out[*n] = 0xF0 | (c >> 18) as u8;
		out[*n + 1] = 0x80 | ((c >> 12) & 0x3F) as u8;
		out[*n + 2] = 0x80 | ((c >> 6) & 0x3F) as u8;
		out[*n + 3] = 0x80 | (c & 0x3F) as u8;
		*n += 4;
	}
}

const NU: usize = 3;

#[kani::proof]
#[kani::unwind(14)]
fn utf16_units3_any_reads() {
	let units: [u16; NU] = kani::any();
	let nunits: usize = kani::any();
	kani::assume(nunits <= NU);
	let big: bool = kani::any();
	let odd_tail: bool = kani::any();

	let mut bytes = [0u8; 2 * NU + 1];
	let mut i = 0;
	while i < NU {
		let b = if big { units[i].to_be_bytes() } else { units[i].to_le_bytes() };
		bytes[2 * i] = b[0];
		bytes[2 * i + 1] = b[1];
		i += 1;
	}
	bytes[2 * NU] = kani::any();
	let blen = 2 * nunits + if odd_tail { 1 } else { 0 };
	kani::assume(blen <= 2 * NU + 1);
	// odd tail sits right after the last whole unit
	if odd_tail && nunits < NU {
		bytes[2 * nunits] = kani::any();
	}

	// ---- reference: scalars before first error, BOM stripped
	let mut exp = [0u8; 16];
	let mut en = 0usize;
	let mut well_formed = true;
	let mut k = 0;
	let mut first = true;
	while k < nunits {
		let u = units[k] as u32;
		if u < 0xD800 || u > 0xDFFF {
			if !(first && u == 0xFEFF) {
				ref_utf8(u, &mut exp, &mut en);
			}
			k += 1;
		} else if u <= 0xDBFF && k + 1 < nunits && (0xDC00..=0xDFFF).contains(&(units[k + 1] as u32)) {
			let c = 0x10000 + (((u - 0xD800) << 10) | (units[k + 1] as u32 - 0xDC00));
			ref_utf8(c, &mut exp, &mut en);
			k += 2;
		} else {
			well_formed = false;
			break;
		}
		first = false;
	}
	if odd_tail {
		well_formed = false;
	}

	// ---- implementation under arbitrary read sizes
	let enc = if big { Encoding::Utf16Big } else { Encoding::Utf16Little };
	let mut e = Encoder::new(Chunky::new(&bytes[..blen]), enc);
	let mut got = [0u8; 16];
	let mut gn = 0usize;
	let mut errored = false;
	let mut eof = false;
	let mut steps = 0;
	while steps < 13 && !errored && !eof {
		let want: usize = kani::any();
		kani::assume(want >= 1 && want <= 5);
		let mut tmp = [0u8; 5];
		match e.read(&mut tmp[..want]) {
			Ok(0) => eof = true,
			Ok(n) => {
				assert!(n <= want);
				let mut j = 0;
				while j < n {
					assert!(gn < 16);
					got[gn] = tmp[j];
					gn += 1;
					j += 1;
				}
			}
			Err(err) => {
				errored = true;
				core::mem::forget(err);
			}
		}
		steps += 1;
	}
	assert!(errored || eof);
	// bytes handed out are always a prefix of the reference encoding
	assert!(gn <= en);
	let mut j = 0;
	while j < 16 {
		if j < gn {
			assert!(got[j] == exp[j]);
		}
		j += 1;
	}
	if well_formed {
		assert!(eof && gn == en);
	} else {
		assert!(errored);
	}
	core::mem::forget(e);
}

// ---------- decomposed: decoder alone (all unit values), encoder alone (all chars x all read sizes)

#[kani::proof]
#[kani::unwind(6)]
fn utf16_decoder_two_units_all_values() {
	let u0: u16 = kani::any();
	let u1: u16 = kani::any();
	let big: bool = kani::any();
	let n: usize = kani::any();
	kani::assume(n >= 1 && n <= 2);
	let mut bytes = [0u8; 4];
	let b0 = if big { u0.to_be_bytes() } else { u0.to_le_bytes() };
	let b1 = if big { u1.to_be_bytes() } else { u1.to_le_bytes() };
	bytes[0] = b0[0]; bytes[1] = b0[1]; bytes[2] = b1[0]; bytes[3] = b1[1];
	let mut d = Utf16Decoder::new(Chunky::new(&bytes[..2 * n]), if big { Endianness::Big } else { Endianness::Little });
	let first = d.next();
	let lead = (0xD800..=0xDBFF).contains(&u0);
	let trail0 = (0xDC00..=0xDFFF).contains(&u0);
	let trail1 = (0xDC00..=0xDFFF).contains(&u1);
	match first {
		None => assert!(false),
		Some(Ok(c)) => {
			let c = c as u32;
			assert!(c <= 0x10FFFF && !(0xD800..=0xDFFF).contains(&c));
			if !lead && !trail0 {
				assert!(c == u0 as u32);
			} else {
				assert!(lead && n == 2 && trail1);
				assert!(c == 0x10000 + (((u0 as u32 - 0xD800) << 10) | (u1 as u32 - 0xDC00)));
			}
		}
		Some(Err(e)) => {
			assert!(trail0 || (lead && (n == 1 || !trail1)));
			core::mem::forget(e);
		}
	}
	core::mem::forget(d);
}

#[kani::proof]
#[kani::unwind(6)]
fn utf32_decoder_one_unit_all_values() {
	let u: u32 = kani::any();
	let big: bool = kani::any();
	let n: usize = kani::any();
	kani::assume(n <= 4);
	let bytes = if big { u.to_be_bytes() } else { u.to_le_bytes() };
	let mut d = Utf32Decoder::new(Chunky::new(&bytes[..n]), if big { Endianness::Big } else { Endianness::Little });
	match d.next() {
		None => assert!(n == 0),
		Some(Ok(c)) => {
			assert!(n == 4 && c as u32 == u);
			assert!(u <= 0x10FFFF && !(0xD800..=0xDFFF).contains(&u));
		}
		Some(Err(e)) => {
			assert!(n != 0 && (n < 4 || u > 0x10FFFF || (0xD800..=0xDFFF).contains(&u)));
			core::mem::forget(e);
		}
	}
	core::mem::forget(d);
}

struct Chars {
	c: [char; 3],
	n: usize,
	i: usize,
}
impl Iterator for Chars {
	type Item = io::Result<char>;
	fn next(&mut self) -> Option<io::Result<char>> {
		if self.i < self.n {
			self.i += 1;
			Some(Ok(self.c[self.i - 1]))
		} else {
			None
		}
	}
}

#[kani::proof]
#[kani::unwind(15)]
fn utf8_encoder_three_chars_any_reads() {
	let c: [char; 3] = kani::any();
	let n: usize = kani::any();
	kani::assume(n <= 3);
	let mut exp = [0u8; 16];
	let mut en = 0usize;
	let mut k = 0;
	while k < n {
		if !(k == 0 && c[0] == '\u{FEFF}') {
			ref_utf8(c[k] as u32, &mut exp, &mut en);
		}
		k += 1;
	}
	let mut e = Utf8Encoder::new(Chars { c, n, i: 0 });
	let mut got = [0u8; 16];
	let mut gn = 0usize;
	let mut eof = false;
	let mut steps = 0;
	while steps < 13 && !eof {
		let want: usize = kani::any();
		kani::assume(want >= 1 && want <= 6);
		let mut tmp = [0u8; 6];
		match e.read(&mut tmp[..want]) {
			Ok(0) => eof = true,
			Ok(m) => {
				assert!(m <= want);
				let mut j = 0;
				while j < m {
					assert!(gn < 16);
					got[gn] = tmp[j];
					gn += 1;
					j += 1;
				}
			}
			Err(_) => assert!(false),
		}
		steps += 1;
	}
	assert!(eof && gn == en);
	let mut j = 0;
	while j < 12 {
		if j < gn {
			assert!(got[j] == exp[j]);
		}
		j += 1;
	}
}

#[kani::proof]
fn encoding_detect_total() {
	let p: [u8; 4] = kani::any();
	let n: usize = kani::any();
	kani::assume(n <= 4);
	let e = Encoding::detect(&p[..n]);
	// ascii-first-char UTF-16/32 without BOM and all BOM forms per YAML 1.2 table 5.2
	if n == 4 && p[0] == 0 && p[1] == 0 && p[2] == 0xFE && p[3] == 0xFF { assert!(matches!(e, Encoding::Utf32Big)); }
	if n == 4 && p[0] == 0 && p[1] == 0 && p[2] == 0 { assert!(matches!(e, Encoding::Utf32Big)); }
	if n == 4 && p[0] == 0xFF && p[1] == 0xFE && p[2] == 0 && p[3] == 0 { assert!(matches!(e, Encoding::Utf32Little)); }
	if n >= 2 && n < 4 && p[0] == 0xFE && p[1] == 0xFF { assert!(matches!(e, Encoding::Utf16Big)); }
	if n >= 1 && p[0] != 0 && p[0] < 0x80 && (n < 2 || (p[1] != 0 && p[1] < 0x80)) { assert!(matches!(e, Encoding::Utf8)); }
}

// ---------- one inductive step of Utf8Encoder::read from an arbitrary valid state
#[kani::proof]
#[kani::unwind(18)]
fn utf8_encoder_one_step_any_state() {
	let c: [char; 3] = kani::any();
	let n: usize = kani::any();
	kani::assume(n <= 3);
	let started: bool = kani::any();
	let rbuf: [u8; 4] = kani::any();
	let rpos: usize = kani::any();
	let rlen: usize = kani::any();
	kani::assume(rpos <= rlen && rlen <= 4);
	// a pending remainder only exists after at least one char was produced
	kani::assume(started || rpos == rlen);

	// pending stream P
	let mut p = [0u8; 16];
	let mut pn = 0usize;
	let mut k = rpos;
	while k < rlen {
		p[pn] = rbuf[k];
		pn += 1;
		k += 1;
	}
	let mut k = 0;
	while k < n {
		if !(k == 0 && !started && c[0] == '\u{FEFF}') {
			ref_utf8(c[k] as u32, &mut p, &mut pn);
		}
		k += 1;
	}

	let mut e = Utf8Encoder::new(Chars { c, n, i: 0 });
	e.started = started;
	e.remainder.buf = rbuf;
	e.remainder.pos = rpos;
	e.remainder.len = rlen;

	let want: usize = kani::any();
	kani::assume(want <= 9);
	let mut tmp = [0u8; 9];
	let m = match e.read(&mut tmp[..want]) {
		Ok(m) => m,
		Err(_) => { assert!(false); 0 }
	};
	assert!(m == if want < pn { want } else { pn });
	let mut j = 0;
	while j < 9 {
		if j < m { assert!(tmp[j] == p[j]); }
		j += 1;
	}
	// post-state: remainder ++ enc(rest of chars) == P[m..]
	assert!(e.remainder.pos <= e.remainder.len && e.remainder.len <= 4);
	let mut q = [0u8; 16];
	let mut qn = 0usize;
	let mut k = e.remainder.pos;
	while k < e.remainder.len {
		q[qn] = e.remainder.buf[k];
		qn += 1;
		k += 1;
	}
	let mut k = e.source.i;
	while k < n {
		if !(k == 0 && !e.started && c[0] == '\u{FEFF}') {
			ref_utf8(c[k] as u32, &mut q, &mut qn);
		}
		k += 1;
	}
	assert!(qn == pn - m);
	let mut j = 0;
	while j < 16 {
		if j < qn { assert!(q[j] == p[m + j]); }
		j += 1;
	}
}
