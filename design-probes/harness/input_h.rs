use super::*;

const N: usize = 3;

struct Src<'a> {
	data: &'a [u8],
	pos: usize,
}
impl<'a> Read for Src<'a> {
	fn read(&mut self, buf: &mut [u8]) -> io::Result<usize> {
		let rest = self.data.len() - self.pos;
		if rest == 0 || buf.is_empty() {
			return Ok(0);
		}
		let max = if rest < buf.len() { rest } else { buf.len() };
		let k: usize = kani::any();
		kani::assume(k >= 1 && k <= max);
		buf[..k].copy_from_slice(&self.data[self.pos..self.pos + k]);
		self.pos += k;
		Ok(k)
	}
}

fn check_prefix(got: &[u8], data: &[u8]) {
	assert!(got.len() <= data.len());
	let mut i = 0;
	while i < N {
		if i < got.len() {
			assert!(got[i] == data[i]);
		}
		i += 1;
	}
}

/// One borrow: either a couple of partial reads or a prefix request.
fn one_borrow(h: &mut Handle<'_>, data: &[u8]) {
	let mut r = h.borrow_mut();
	if kani::any() {
		let hint: usize = kani::any();
		kani::assume(hint <= N + 1);
		let is_slice = matches!(r, Ref::Slice(_));
		let p = r.prefix(hint).unwrap();
		check_prefix(p, data);
		if is_slice {
			assert!(p.len() == data.len());
		} else {
			assert!(p.len() >= if hint < data.len() { hint } else { data.len() });
		}
	} else {
		match r {
			Ref::Slice(b) => {
				assert!(b.len() == data.len());
				check_prefix(b, data);
			}
			Ref::Reader(rd) => {
				let mut seen = [0u8; N];
				let mut n = 0;
				let mut step = 0;
				while step < 2 {
					let want: usize = kani::any();
					kani::assume(want >= 1 && want <= 2);
					let mut tmp = [0u8; 2];
					let got = rd.read(&mut tmp[..want]).unwrap();
					assert!(got <= want);
					let mut j = 0;
					while j < got {
						assert!(n < N);
						seen[n] = tmp[j];
						n += 1;
						j += 1;
					}
					step += 1;
				}
				check_prefix(&seen[..n], data);
			}
		}
	}
}

#[kani::proof]
#[kani::unwind(5)]
fn handle_programs_n3_k2() {
	let buf: [u8; N] = kani::any();
	let len: usize = kani::any();
	kani::assume(len <= N);
	let data = &buf[..len];
	let mut h = Handle::from_reader(Src { data, pos: 0 });
	let k: usize = kani::any();
	kani::assume(k <= 1);
	let mut i = 0;
	while i < k {
		one_borrow(&mut h, data);
		i += 1;
	}
	// take ownership
	match Input::from(h) {
		Input::Slice(b) => {
			assert!(b.len() == len);
			check_prefix(&b, data);
			core::mem::forget(b);
		}
		Input::Reader(mut r) => {
			let mut seen = [0u8; N];
			let mut n = 0;
			let mut step = 0;
			let mut eof = false;
			while step < N + 1 && !eof {
				let mut tmp = [0u8; 2];
				let got = r.read(&mut tmp).unwrap();
				if got == 0 {
					eof = true;
				}
				let mut j = 0;
				while j < got {
					assert!(n < N);
					seen[n] = tmp[j];
					n += 1;
					j += 1;
				}
				step += 1;
			}
			assert!(eof);
			assert!(n == len);
			check_prefix(&seen[..n], data);
			core::mem::forget(r);
		}
	};
}

// ---- generic level (no dyn Read): CaptureReader<Src> under arbitrary op programs
#[kani::proof]
#[kani::unwind(6)]
fn capture_reader_programs_n3() {
	let buf: [u8; N] = kani::any();
	let len: usize = kani::any();
	kani::assume(len <= N);
	let data = &buf[..len];
	let mut g = GuardedCaptureReader::new(Src { data, pos: 0 });
	let mut round = 0;
	while round < 2 {
		let r = g.rewind_and_borrow_mut();
		// invariant after rewind: captured is a prefix of data; eof => captured == data
		check_prefix(r.captured(), data);
		if r.is_source_eof() {
			assert!(r.captured().len() == len);
		}
		let mut seen = [0u8; N];
		let mut n = 0;
		let mut step = 0;
		while step < 2 {
			let want: usize = kani::any();
			kani::assume(want >= 1 && want <= 2);
			let mut tmp = [0u8; 2];
			let got = r.read(&mut tmp[..want]).unwrap();
			assert!(got <= want);
			let mut j = 0;
			while j < got {
				assert!(n < N);
				seen[n] = tmp[j];
				n += 1;
				j += 1;
			}
			step += 1;
		}
		check_prefix(&seen[..n], data);
		round += 1;
	}
	let r = g.rewind_and_take();
	check_prefix(r.captured(), data);
	let eof = r.is_source_eof();
	let (cursor, src) = r.into_inner();
	assert!(cursor.position() == 0);
	// captured ++ rest-of-source == data
	assert!(cursor.get_ref().len() == src.pos);
	if eof {
		assert!(src.pos == len);
	}
	core::mem::forget(cursor);
}

// ---- one step from an arbitrary valid state (inductive form), incl. capture_up_to_size / capture_to_end
#[kani::proof]
#[kani::unwind(7)]
fn capture_step_any_state() {
	capture_step(kani::any::<u8>() % 3);
}

#[kani::proof]
#[kani::unwind(7)]
fn capture_step_read_only() {
	capture_step(0);
}

fn capture_step(op: u8) {
	let buf: [u8; N] = kani::any();
	let len: usize = kani::any();
	kani::assume(len <= N);
	let data = &buf[..len];
	let c: usize = kani::any(); // bytes already captured
	let p: usize = kani::any(); // replay position
	kani::assume(p <= c && c <= len);
	let eof: bool = kani::any();
	kani::assume(!eof || c == len);
	let mut cursor = Cursor::new(data[..c].to_vec());
	cursor.set_position(p as u64);
	let mut r = CaptureReader { prefix: cursor, source: Src { data, pos: c }, source_eof: eof };
	match op {
		0 => {
			let want: usize = kani::any();
			kani::assume(want <= 3);
			let mut tmp = [0u8; 3];
			let got = r.read(&mut tmp[..want]).unwrap();
			assert!(got <= want);
			// bytes are the next bytes of the stream after position p
			let mut j = 0;
			while j < 3 { if j < got { assert!(tmp[j] == data[p + j]); } j += 1; }
			assert!(r.prefix.position() as usize == p + got);
		}
		1 => {
			let h: usize = kani::any();
			kani::assume(h <= N + 1);
			r.capture_up_to_size(h).unwrap();
			assert!(r.prefix.position() as usize == p);
			assert!(r.captured().len() >= if h < len { h } else { len });
		}
		_ => {
			r.capture_to_end().unwrap();
			assert!(r.prefix.position() as usize == p);
			assert!(r.captured().len() == len && r.is_source_eof());
		}
	}
	// invariant
	check_prefix(r.captured(), data);
	assert!(r.captured().len() == r.source.pos);
	assert!(r.prefix.position() as usize <= r.captured().len());
	if r.is_source_eof() { assert!(r.captured().len() == len); }
	core::mem::forget(r);
}
