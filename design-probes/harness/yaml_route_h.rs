use super::*;
use serde_yaml::ghost as g;

struct NullOut;
impl crate::Output for NullOut {
	fn transcode_from<'de, D, E>(&mut self, _de: D) -> crate::Result<()>
	where D: de::Deserializer<'de, Error = E>, E: de::Error + Send + Sync + 'static { Ok(()) }
	fn transcode_value<S: ser::Serialize>(&mut self, _v: S) -> crate::Result<()> { Ok(()) }
	fn flush(&mut self) -> io::Result<()> { Ok(()) }
}

static mut SLOW: bool = false;
fn stub_tr<R: BufRead, O: crate::Output>(_input: R, _output: O) -> crate::Result<()> {
	unsafe { SLOW = true; }
	Ok(())
}

#[kani::proof]
#[kani::stub(transcode_reader, stub_tr)]
#[kani::unwind(8)]
fn yaml_fast_path_only_for_utf8_streams() {
	let buf: [u8; 4] = kani::any();
	let len: usize = kani::any();
	kani::assume(len <= 4);
	let data = &buf[..len];
	let r1 = transcode(input::Handle::from_slice(data), NullOut);
	let fast = unsafe { g::FROM_STR_CALLS == 1 && !SLOW };
	let slow = unsafe { g::FROM_STR_CALLS == 0 && SLOW };
	assert!(fast || slow);
	if fast {
		// the parser was given the raw bytes: only right if the stream really is UTF-8
		assert!(matches!(Encoding::detect(data), Encoding::Utf8));
	}
	core::mem::forget(r1);
}
