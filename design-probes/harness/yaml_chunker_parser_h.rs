use super::*;

struct Liar { claim: usize }
impl Read for Liar {
	fn read(&mut self, buf: &mut [u8]) -> io::Result<usize> {
		if !buf.is_empty() { buf[0] = 1; }
		if self.claim == usize::MAX - 1 { return Err(io::Error::from(io::ErrorKind::Other)); }
		Ok(self.claim)
	}
}

#[kani::proof]
#[kani::unwind(10)]
fn read_handler_any_claim() {
	let mut st = ReadState { reader: Liar { claim: kani::any() }, bouncer: vec![], error: None };
	let mut dst = [0u8; 8];
	let size: u64 = kani::any();
	kani::assume(size <= 8);
	let mut got: u64 = 0;
	let rc = unsafe {
		Parser::<Liar>::read_handler(
			(&mut st as *mut ReadState<Liar>).cast::<c_void>(),
			dst.as_mut_ptr(),
			size,
			&mut got,
		)
	};
	if rc == 1 {
		assert!(got <= size);
		assert!(st.error.is_none());
	} else {
		assert!(st.error.is_some());
	}
	core::mem::forget(st);
}
