use super::*;
use std::cell::Cell;

thread_local! {}
static mut ORDER: [u8; 4] = [0; 4];
static mut NCALLS: usize = 0;
static mut PLAN: [u8; 4] = [0; 4]; // 0 => Ok(false), 1 => Ok(true), 2 => Err

fn trial(id: u8, mut input: input::Ref) -> io::Result<bool> {
	// every trial must see the stream from its very beginning
	if let input::Ref::Reader(r) = &mut input {
		let mut b = [0u8; 1];
		let n = io::Read::read(r, &mut b).unwrap();
		unsafe { assert!(n == 0 || b[0] == FIRST); }
	}
	unsafe {
		ORDER[NCALLS] = id;
		NCALLS += 1;
		match PLAN[(id - 1) as usize] {
			0 => Ok(false),
			1 => Ok(true),
			_ => Err(io::Error::from(io::ErrorKind::Other)),
		}
	}
}
static mut FIRST: u8 = 0;
fn t_msgpack(i: input::Ref) -> io::Result<bool> { trial(1, i) }
fn t_json(i: input::Ref) -> io::Result<bool> { trial(2, i) }
fn t_yaml(i: input::Ref) -> io::Result<bool> { trial(3, i) }
fn t_toml(i: input::Ref) -> io::Result<bool> { trial(4, i) }

#[kani::proof]
#[kani::stub(crate::msgpack::input_matches, t_msgpack)]
#[kani::stub(crate::json::input_matches, t_json)]
#[kani::stub(crate::yaml::input_matches, t_yaml)]
#[kani::stub(crate::toml::input_matches, t_toml)]
#[kani::unwind(6)]
fn detect_order_and_rewind() {
	let data: [u8; 2] = kani::any();
	unsafe {
		FIRST = data[0];
		PLAN = kani::any();
		kani::assume(PLAN[0] <= 2 && PLAN[1] <= 2 && PLAN[2] <= 2 && PLAN[3] <= 2);
	}
	let mut h = if kani::any() { input::Handle::from_slice(&data) } else { input::Handle::from_reader(&data[..]) };
	let r = detect_format(&mut h);
	unsafe {
		// trials happen in the fixed order 1,2,3,4 and stop at the first non-false answer
		let mut i = 0;
		while i < 4 {
			if i < NCALLS { assert!(ORDER[i] == (i + 1) as u8); }
			i += 1;
		}
		assert!(NCALLS >= 1 && NCALLS <= 4);
		let last = PLAN[NCALLS - 1];
		match &r {
			Ok(Some(f)) => {
				assert!(last == 1);
				let want = NCALLS;
				let got = match f { Format::Msgpack => 1, Format::Json => 2, Format::Yaml => 3, Format::Toml => 4 };
				assert!(got == want);
			}
			Ok(None) => assert!(NCALLS == 4 && last == 0),
			Err(_) => assert!(last == 2),
		}
		let mut i = 0;
		while i + 1 < NCALLS { assert!(PLAN[i] == 0); i += 1; }
	}
	core::mem::forget(r);
}
