use super::*;
