use super::*;
