use super::*;

#[kani::proof]
#[kani::unwind(20)]
fn chunker_concrete_tiny() {
	let input: &[u8] = b"a: 1\n";
	let mut c = Chunker::new(input);
	let d = c.next();
	assert!(matches!(d, Some(Ok(_))));
	core::mem::forget(d);
	core::mem::forget(c);
}

struct NoRead;
impl Read for NoRead { fn read(&mut self, _b: &mut [u8]) -> io::Result<usize> { Ok(0) } }

#[kani::proof]
#[kani::unwind(8)]
fn chunkreader_trim_take_any_state() {
	let n: usize = kani::any();
	kani::assume(n <= 5);
	let mut v: Vec<u8> = Vec::new();
	let mut i = 0;
	while i < n { v.push(kani::any()); i += 1; }
	let start: u64 = kani::any();
	kani::assume(start <= u64::MAX - 8);
	let mut cr = ChunkReader { reader: NoRead, captured: v, captured_start_offset: start };
	let off: u64 = kani::any();
	// libyaml mark contract: offsets never precede the trimmed start nor exceed what was read
	kani::assume(off >= start && off - start <= n as u64);
	if kani::any() {
		cr.trim_to_offset(off);
		assert!(cr.captured.len() as u64 == n as u64 - (off - start));
		assert!(cr.captured_start_offset == off);
	} else {
		let chunk = cr.take_to_offset(off);
		assert!(chunk.len() as u64 == off - start);
		assert!(cr.captured.len() as u64 == n as u64 - (off - start));
		assert!(cr.captured_start_offset == off);
		core::mem::forget(chunk);
	}
	core::mem::forget(cr);
}
