use super::*;
#[path = "/var/tmp/xtprobe/h/mockde.rs"]
mod mockde;
use mockde::*;

#[kani::proof]
#[kani::unwind(8)]
fn yaml_output_framing_failing_doc() {
	let mut out = Output::new(LogW { buf: [0; 24], n: 0 });
	let r1 = crate::Output::transcode_from(&mut out, TDe { kind: 0 });
	assert!(r1.is_err());
	assert!(out.0.n >= 4 && out.0.buf[0] == b'-' && out.0.buf[1] == b'-' && out.0.buf[2] == b'-' && out.0.buf[3] == b'\n');
	core::mem::forget(r1);
}
