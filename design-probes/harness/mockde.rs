// shared tiny mock deserializer: emits one scalar
use serde::de;
use std::fmt;
#[derive(Debug)]
pub struct TErr;
impl fmt::Display for TErr { fn fmt(&self, _: &mut fmt::Formatter) -> fmt::Result { Ok(()) } }
impl std::error::Error for TErr {}
impl de::Error for TErr { fn custom<T: fmt::Display>(_: T) -> Self { TErr } }
pub struct TDe { pub kind: u8 }
impl<'de> de::Deserializer<'de> for TDe {
	type Error = TErr;
	fn deserialize_any<V: de::Visitor<'de>>(self, v: V) -> Result<V::Value, TErr> {
		match self.kind {
			0 => Err(TErr),
			1 => v.visit_bool(true),
			_ => v.visit_unit(),
		}
	}
	serde::forward_to_deserialize_any! {
		bool i8 i16 i32 i64 i128 u8 u16 u32 u64 u128 f32 f64 char str string
		bytes byte_buf option unit unit_struct newtype_struct seq tuple
		tuple_struct map struct enum identifier ignored_any
	}
}
pub struct LogW { pub buf: [u8; 24], pub n: usize }
impl std::io::Write for LogW {
	fn write(&mut self, b: &[u8]) -> std::io::Result<usize> {
		let mut i = 0;
		while i < b.len() { if self.n < 24 { self.buf[self.n] = b[i]; } self.n += 1; i += 1; }
		Ok(b.len())
	}
	fn flush(&mut self) -> std::io::Result<()> { Ok(()) }
}
