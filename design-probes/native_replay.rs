use std::io::{self, Read, Write};
use xt::Format;

struct FailAt { seen: Vec<u8>, fail_at: usize }
impl Write for FailAt {
	fn write(&mut self, b: &[u8]) -> io::Result<usize> {
		if self.seen.len() >= self.fail_at { return Err(io::Error::new(io::ErrorKind::Other, "disk on fire")); }
		let room = self.fail_at - self.seen.len();
		let n = room.min(b.len());
		self.seen.extend_from_slice(&b[..n]);
		Ok(n)
	}
	fn flush(&mut self) -> io::Result<()> { Ok(()) }
}
struct OneByte<'a>(&'a [u8]);
impl<'a> Read for OneByte<'a> {
	fn read(&mut self, b: &mut [u8]) -> io::Result<usize> {
		if self.0.is_empty() || b.is_empty() { return Ok(0); }
		b[0] = self.0[0]; self.0 = &self.0[1..]; Ok(1)
	}
}

fn main() {
	// F1: writer fails at every byte of "[1,2,{"a":3}]\n"
	let input = br#"[1,2,{"a":3}]"#;
	let mut full = Vec::new();
	xt::translate_slice(input, Some(Format::Json), Format::Json, &mut full).unwrap();
	for k in 0..full.len() {
		for reader in [false, true] {
			let mut w = FailAt { seen: vec![], fail_at: k };
			let r = if reader { xt::translate_reader(&input[..], Some(Format::Json), Format::Json, &mut w) } else { xt::translate_slice(input, Some(Format::Msgpack).and(Some(Format::Json)), Format::Json, &mut w) };
			let msg = r.unwrap_err().to_string();
			println!("F1 reader={reader} fail_at={k} next_byte={:?} -> {msg}", full[k] as char);
		}
	}
	// same through the streaming transcoder from msgpack slice: [1,2]
	let mp = [0x92u8, 1, 2];
	for k in 0..6 {
		let mut w = FailAt { seen: vec![], fail_at: k };
		match xt::translate_slice(&mp, Some(Format::Msgpack), Format::Json, &mut w) {
			Ok(()) => println!("F1 msgpack fail_at={k} -> OK"),
			Err(e) => println!("F1 msgpack fail_at={k} -> {e}"),
		}
	}
	// F2: truncated msgpack collection, detection
	for inp in [&[0x91u8][..], "\u{0700}a: b\n".as_bytes(), &[0xdc, 0x00][..]] {
		let r1 = xt::translate_slice(inp, None, Format::Json, io::sink());
		let r2 = xt::translate_reader(OneByte(inp), None, Format::Json, io::sink());
		println!("F2 {:02x?} slice={:?} reader={:?}", inp, r1.map_err(|e| e.to_string()), r2.map_err(|e| e.to_string()));
	}
	// F3: ASCII-only UTF-16LE YAML, slice vs reader
	let text = "a: b\n";
	let utf16le: Vec<u8> = text.encode_utf16().flat_map(|u| u.to_le_bytes()).collect();
	let mut o1 = Vec::new();
	let r1 = xt::translate_slice(&utf16le, Some(Format::Yaml), Format::Json, &mut o1);
	let mut o2 = Vec::new();
	let r2 = xt::translate_reader(&utf16le[..], Some(Format::Yaml), Format::Json, &mut o2);
	println!("F3 slice={:?} out={:?}", r1.map_err(|e| e.to_string()), String::from_utf8_lossy(&o1));
	println!("F3 reader={:?} out={:?}", r2.map_err(|e| e.to_string()), String::from_utf8_lossy(&o2));
}
