#!/usr/bin/env python3-vt
"""Prototype: symbolically execute try_parse_format's MIR with z3 (strings), prove it equals the documented table."""
import re, sys, z3
mir = open('/var/tmp/xtprobe/main.mir').read()
m = re.search(r'^fn try_parse_format\(.*?^}\n', mir, re.S | re.M)
body = m.group(0)
blocks = {}
for bm in re.finditer(r'^    (bb\d+): \{\n(.*?)^    \}', body, re.S | re.M):
    stmts = [s.strip() for s in bm.group(2).strip().split('\n')]
    stmts = [s for s in stmts if not re.match(r'(StorageLive|StorageDead|FakeRead|PlaceMention|AscribeUserType)', s)]
    blocks[bm.group(1)] = stmts
s = z3.String('s')
FORMATS = ['Json', 'Msgpack', 'Toml', 'Yaml']
paths = []  # (path condition, result)
def run(bb, env, pc, depth=0):
    for st in blocks[bb]:
        mm = re.match(r'(_\d+) = <str as PartialEq>::eq\(copy _1, const "([^"]*)"\) -> \[return: (bb\d+)', st)
        if mm:
            env = dict(env); env[mm.group(1)] = (s == z3.StringVal(mm.group(2)))
            return run(mm.group(3), env, pc, depth + 1)
        mm = re.match(r'switchInt\(move (_\d+)\) -> \[0: (bb\d+), otherwise: (bb\d+)\]', st)
        if mm:
            c = env[mm.group(1)]
            run(mm.group(2), env, pc + [z3.Not(c)], depth + 1)
            run(mm.group(3), env, pc + [c], depth + 1)
            return
        mm = re.match(r'(_\d+) = (Json|Msgpack|Toml|Yaml);', st)
        if mm:
            env = dict(env); env[mm.group(1)] = ('fmt', mm.group(2)); continue
        mm = re.match(r'_0 = Result::<Format, &str>::Ok\(move (_\d+)\);', st)
        if mm:
            env = dict(env); env['_0'] = ('Ok', env[mm.group(1)][1]); continue
        mm = re.match(r'_0 = Result::<Format, &str>::Err\(', st)
        if mm:
            env = dict(env); env['_0'] = ('Err', None); continue
        mm = re.match(r'(_\d+) = const "', st)
        if mm: continue
        mm = re.match(r'goto -> (bb\d+);', st)
        if mm: return run(mm.group(1), env, pc, depth + 1)
        if st == 'return;':
            paths.append((z3.And(pc) if pc else z3.BoolVal(True), env['_0'])); return
        raise SystemExit(f'unsupported MIR statement: {st}')
run('bb0', {}, [])
TABLE = {'j': 'Json', 'json': 'Json', 'm': 'Msgpack', 'msgpack': 'Msgpack', 't': 'Toml', 'toml': 'Toml', 'y': 'Yaml', 'yaml': 'Yaml'}
def spec(res):
    if res[0] == 'Ok':
        return z3.Or([s == z3.StringVal(k) for k, v in TABLE.items() if v == res[1]])
    return z3.And([s != z3.StringVal(k) for k in TABLE])
queries = 0
for pc, res in paths:
    sol = z3.Solver(); sol.add(pc, z3.Not(spec(res))); queries += 1
    r = sol.check()
    if r != z3.unsat:
        print('COUNTEREXAMPLE', sol.model() if r == z3.sat else r, res); sys.exit(1)
print(f'paths={len(paths)} queries={queries} all unsat: try_parse_format == table for every string')
