#!/usr/bin/env python3-vt
"""Prototype E3: bounded symbolic execution of main()'s MIR with uninterpreted calls + z3.

Checks (on every path, <= K inputs):
  K3  exit(2) <=> parse_args returned Err; on that path: stderr event, no stdout lock, no translate
  K4  the `from` argument of every translate_* call == ite(is_some(args.from), args.from, extension_format(path))
  K5  at every exit(1) that is not caused by a failed flush, and at return, every Ok-translated input was flushed
"""
import re, sys, time, z3

MIR = sys.argv[1] if len(sys.argv) > 1 else '/var/tmp/xtprobe/main.mir'
K = int(sys.argv[2]) if len(sys.argv) > 2 else 3
text = open(MIR).read()
NOISE = re.compile(r'^(StorageLive|StorageDead|FakeRead|PlaceMention|AscribeUserType|nop)')


def function(name_re):
    m = re.search(r'^fn ' + name_re + r'.*?^}\n', text, re.S | re.M)
    if not m:
        raise SystemExit(f'INCONCLUSIVE: function {name_re} not found in MIR')
    blocks = {}
    for bm in re.finditer(r'^    (bb\d+)(?: \(cleanup\))?: \{\n(.*?)^    \}', m.group(0), re.S | re.M):
        lines = [l.strip() for l in bm.group(2).strip().split('\n')]
        blocks[bm.group(1)] = [l for l in lines if l and not NOISE.match(l)]
    return blocks


V = z3.DeclareSort('V')
disc = z3.Function('disc', V, z3.IntSort())
asint = z3.Function('asint', V, z3.IntSort())
ExtFmt = z3.Function('extension_format', V, V)
_proj = {}
_fresh = [0]


def proj(base, name):
    f = _proj.setdefault(name, z3.Function('proj_' + re.sub(r'\W+', '_', name), V, V))
    return f(base)


def fresh(tag):
    _fresh[0] += 1
    return z3.Const(f'{tag}#{_fresh[0]}', V)


def split_top(s):
    out, depth, cur = [], 0, ''
    for ch in s:
        if ch in '([{<':
            depth += 1
        elif ch in ')]}>':
            depth -= 1
        if ch == ',' and depth == 0:
            out.append(cur.strip()); cur = ''
        else:
            cur += ch
    if cur.strip():
        out.append(cur.strip())
    return out


def place(env, p):
    p = p.strip()
    m = re.match(r'^\(\((.+) as (\w+)\)\.(\d+): .+\)$', p)
    if m:
        return proj(place(env, m.group(1)), f'{m.group(2)}.{m.group(3)}')
    m = re.match(r'^\((.+)\.(\d+): .+\)$', p)
    if m:
        return proj(place(env, m.group(1)), f'f{m.group(2)}')
    m = re.match(r'^\(\*(.+)\)$', p)
    if m:
        return place(env, m.group(1))
    if re.match(r'^_\d+$', p):
        if p not in env:
            env[p] = fresh('uninit' + p)
        return env[p]
    raise SystemExit(f'INCONCLUSIVE: unsupported place {p}')


def operand(env, o):
    o = o.strip()
    m = re.match(r'^(move|copy|no_retag copy) (.+)$', o)
    if m:
        return place(env, m.group(2))
    if o.startswith('const '):
        c = o[6:]
        if c == 'true':
            return True
        if c == 'false':
            return False
        m = re.match(r'^(-?\d+)_\w+$', c)
        if m:
            return int(m.group(1))
        return ('const', c)
    return ('item', o)  # function item / closure etc.


def rvalue(env, r):
    r = r.strip()
    if re.match(r'^(move|copy|no_retag copy|const) ', r):
        return operand(env, r)
    m = re.match(r'^&(mut |raw const |raw mut )?(.+)$', r)
    if m:  # references are transparent in this abstraction
        return place(env, m.group(2))
    m = re.match(r'^discriminant\((.+)\)$', r)
    if m:
        return disc(place(env, m.group(1)))
    # aggregates, tuples, arrays, enum variants without payload: opaque fresh value
    return fresh('agg')


class Path:
    def __init__(self):
        self.env, self.pc, self.trace, self.inputs = {}, [], [], 0

    def clone(self):
        p = Path(); p.env = dict(self.env); p.pc = list(self.pc); p.trace = list(self.trace); p.inputs = self.inputs
        return p


def parse_call(term):
    m = re.match(r'^(.*) -> (?:\[return: (bb\d+), unwind [^\]]*\]|unwind unreachable);$', term)
    if not m:
        return None
    lhs_call, ret = m.group(1), m.group(2)
    if not lhs_call.endswith(')'):
        return None
    depth, i = 0, len(lhs_call) - 1
    while i >= 0:
        if lhs_call[i] == ')':
            depth += 1
        elif lhs_call[i] == '(':
            depth -= 1
            if depth == 0:
                break
        i -= 1
    args = lhs_call[i + 1:-1]
    head = lhs_call[:i]
    if ' = ' not in head:
        return None
    dst, fn = head.split(' = ', 1)
    return dst.strip(), fn.strip(), split_top(args), ret


def norm(fn):
    for key in ['parse_args', 'process::exit', 'translate_reader::<StdinLock', 'translate_reader::<File', 'translate_slice',
                'Translator::<', 'Stdout::lock', 'stdout()', 'stderr()', 'Stderr::lock', 'write_fmt', 'write_short_help',
                'is_terminal', 'format_is_unsafe_for_terminal', 'InputPath::open', 'or_else', 'Iterator>::next', 'is_empty',
                'BufWriter', 'Writer::<', 'stdin()', 'Stdin::lock']:
        if key in fn:
            if key == 'Translator::<':
                return 'Translator::' + fn.rsplit('::', 1)[1]
            return key
    return fn


solver = z3.Solver()
stats = dict(paths=0, pruned=0, queries=0, truncated=0, violations=[])
main = function(r'main\(\)')


def feasible(p, extra):
    stats['queries'] += 1
    solver.push(); solver.add(*p.pc, extra)
    r = solver.check(); solver.pop()
    if r == z3.unknown:
        raise SystemExit('INCONCLUSIVE: solver returned unknown')
    return r == z3.sat


def valid(p, claim):
    stats['queries'] += 1
    solver.push(); solver.add(*p.pc, z3.Not(claim))
    r = solver.check(); m = solver.model() if r == z3.sat else None; solver.pop()
    if r == z3.unknown:
        raise SystemExit('INCONCLUSIVE: solver returned unknown')
    return r == z3.unsat, m


def finish(p, how, code=None):
    stats['paths'] += 1
    ev = [e[0] for e in p.trace]
    parse_err = any(e[0] == 'parse_args' and e[3] == 'Err' for e in p.trace)
    # K3
    if (how == 'exit' and code == 2) != parse_err:
        stats['violations'].append(('K3', 'exit(2) <=> parse error', ev))
    if how == 'exit' and code == 2:
        if 'write_fmt' not in ev or 'Stdout::lock' in ev or any(x.startswith('translate') for x in ev):
            stats['violations'].append(('K3', 'usage error path touches stdout/translate or is silent', ev))
    if how == 'exit' and code == 1 and ev[-2:] != ['write_fmt', 'process::exit'] and 'write_fmt' not in ev[-4:]:
        stats['violations'].append(('K3', 'exit(1) without message', ev))
    # K5: ghost accounting
    pending = 0
    last_fail_is_flush = False
    for e in p.trace:
        if e[0].startswith('translate'):
            if e[3] == 'Ok':
                pending += 1
        elif e[0] == 'Translator::flush':
            if e[3] == 'Ok':
                pending = 0
            last_fail_is_flush = e[3] == 'Err'
    if how == 'exit' and code == 1 and not last_fail_is_flush and pending != 0:
        stats['violations'].append(('K5', f'{pending} finished input(s) still buffered at exit(1)', ev))
    if how == 'return':
        if any(e[3] == 'Err' for e in p.trace if e[0].startswith('translate') or e[0] == 'Translator::flush'):
            stats['violations'].append(('K3', 'exit 0 after a failure', ev))


def step(p, bb):
    while True:
        stmts = main[bb]
        for st in stmts[:-1]:
            m = re.match(r'^(.+?) = (.+);$', st)
            if not m:
                raise SystemExit(f'INCONCLUSIVE: unsupported statement {st}')
            dst, rv = m.group(1).strip(), m.group(2)
            if not re.match(r'^_\d+$', dst):
                raise SystemExit(f'INCONCLUSIVE: assignment to projection {dst}')
            p.env[dst] = rvalue(p.env, rv)
        term = stmts[-1]
        if term == 'return;':
            return finish(p, 'return')
        if term == 'unreachable;':
            stats['violations'].append(('MIR', 'reached unreachable', [e[0] for e in p.trace])); return
        m = re.match(r'^goto -> (bb\d+);$', term)
        if m:
            bb = m.group(1); continue
        m = re.match(r'^drop\((.+)\) -> \[return: (bb\d+), .*\];$', term)
        if m:
            p.trace.append(('drop', m.group(1), None, None)); bb = m.group(2); continue
        m = re.match(r'^switchInt\((.+)\) -> \[(.+)\];$', term)
        if m:
            v = operand(p.env, m.group(1))
            arms = [a.strip().split(': ') for a in split_top(m.group(2))]
            taken = []
            for val, tgt in arms:
                if main[tgt] == ['unreachable;']:
                    continue  # rustc's exhaustiveness: the arm only exists to carry `unreachable`
                if val == 'otherwise':
                    cond = z3.And([c for c in taken]) if taken else z3.BoolVal(True)
                else:
                    k = int(val)
                    if isinstance(v, bool):
                        eq = z3.BoolVal(int(v) == k)
                    elif isinstance(v, int):
                        eq = z3.BoolVal(v == k)
                    elif z3.is_int(v):
                        eq = v == k
                    else:
                        eq = asint(v) == k
                    cond = eq
                    taken.append(z3.Not(eq))
                if feasible(p, cond):
                    q = p.clone(); q.pc.append(cond); step(q, tgt)
                else:
                    stats['pruned'] += 1
            return
        call = parse_call(term)
        if call:
            dst, fn, args, ret = call
            name = norm(fn)
            argv = [operand(p.env, a) for a in args]
            res = fresh(name.split('::')[-1].split('(')[0] or 'call')
            outcome = None
            if name == 'process::exit':
                p.trace.append((name, argv, None, None))
                return finish(p, 'exit', argv[0])
            if name == 'or_else':
                a = argv[0]
                path_ref = proj(argv[1], 'closure.path') if not isinstance(argv[1], tuple) else fresh('closure')
                # closure {path: &_60}: the aggregate was opaque; recover the captured path from the env (_93 = &_60)
                res = z3.If(disc(a) == 1, a, ExtFmt(p.env.get('_60', path_ref)))
            if name in ('parse_args', 'InputPath::open', 'Translator::flush') or name.startswith('translate'):
                # Result-typed observable: fork on Ok/Err so that the trace records the outcome
                for tag, d in (('Ok', 0), ('Err', 1)):
                    q = p.clone(); q.env[dst] = res; q.pc.append(disc(res) == d)
                    ev = (name, argv, res, tag)
                    if name.startswith('translate'):
                        claim = argv[-1] == z3.If(disc(proj(q.env['_1'], 'f1')) == 1, proj(q.env['_1'], 'f1'), ExtFmt(q.env['_60']))
                        ok, model = valid(q, claim)
                        if not ok:
                            stats['violations'].append(('K4', 'from argument is not  -f.or_else(extension)', str(model)))
                    q.trace.append(ev)
                    if ret:
                        step(q, ret)
                return
            if name == 'Iterator>::next':
                p.inputs += 1
                if p.inputs > K + 1:
                    stats['truncated'] += 1; return
                if p.inputs == K + 1:  # force the end of the input list at the bound
                    p.pc.append(disc(res) == 0)
            p.env[dst] = res
            p.trace.append((name, argv, res, outcome))
            if ret is None:
                raise SystemExit(f'INCONCLUSIVE: diverging call {fn} not modelled')
            bb = ret; continue
        raise SystemExit(f'INCONCLUSIVE: unsupported terminator {term}')


sys.setrecursionlimit(10000)
t0 = time.time()
step(Path(), 'bb0')
dt = time.time() - t0
print(f"main(): inputs<={K} paths={stats['paths']} pruned={stats['pruned']} solver_queries={stats['queries']} time={dt:.1f}s")
seen = set()
for v in stats['violations']:
    key = (v[0], v[1])
    if key in seen:
        continue
    seen.add(key)
    print('VIOLATION', v[0], v[1], v[2] if isinstance(v[2], str) else ' > '.join(x for x in v[2] if x != 'drop'))
sys.exit(1 if stats['violations'] else 0)
