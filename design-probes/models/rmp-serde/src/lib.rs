//! Behavioural model of the part of rmp-serde that xt uses.
#![allow(static_mut_refs)]
use std::fmt;
use std::io::{self, Read};

pub mod ghost {
	pub static mut SOURCE_IO_ERROR: bool = false; // the harness reader reported an error
	pub static mut DESERIALIZERS: usize = 0;
	pub static mut USED_WITHOUT_DEPTH: bool = false;
	pub static mut DEPTH_SEEN: usize = 0;
	pub static mut DOCS: usize = 0;
}

pub mod decode {
	use super::*;
	#[derive(Debug)]
	pub enum Error {
		InvalidMarkerRead(io::Error),
		InvalidDataRead(io::Error),
		TypeMismatch(rmp::Marker),
		OutOfRange,
		LengthMismatch(u32),
		Uncategorized(String),
		Syntax(String),
		DepthLimitExceeded,
	}
	impl fmt::Display for Error { fn fmt(&self, _: &mut fmt::Formatter) -> fmt::Result { Ok(()) } }
	impl std::error::Error for Error {}
	impl serde::de::Error for Error { fn custom<T: fmt::Display>(_: T) -> Self { Error::OutOfRange } }
}
pub mod encode {
	use super::*;
	#[derive(Debug)]
	pub enum Error { InvalidValueWrite(io::Error), Syntax(String) }
	impl fmt::Display for Error { fn fmt(&self, _: &mut fmt::Formatter) -> fmt::Result { Ok(()) } }
	impl std::error::Error for Error {}
	impl serde::ser::Error for Error { fn custom<T: fmt::Display>(_: T) -> Self { Error::Syntax(String::new()) } }
}

pub struct Deserializer<R> { rd: R, depth: Option<usize> }

pub struct ReadReader<R>(R);
pub struct ReadRefReader<'a>(&'a [u8]);

pub trait Src { fn take1(&mut self) -> io::Result<bool>; }
impl<R: Read> Src for ReadReader<R> {
	fn take1(&mut self) -> io::Result<bool> {
		let mut b = [0u8; 1];
		match self.0.read(&mut b) {
			Ok(n) => Ok(n == 1),
			Err(e) => { unsafe { ghost::SOURCE_IO_ERROR = true; } Err(e) }
		}
	}
}
impl<'a> Src for ReadRefReader<'a> {
	fn take1(&mut self) -> io::Result<bool> {
		if self.0.is_empty() { Ok(false) } else { self.0 = &self.0[1..]; Ok(true) }
	}
}

impl<R: Read> Deserializer<ReadReader<R>> {
	pub fn new(rd: R) -> Self { unsafe { ghost::DESERIALIZERS += 1; } Deserializer { rd: ReadReader(rd), depth: None } }
}
impl<'a> Deserializer<ReadRefReader<'a>> {
	pub fn from_read_ref(rd: &'a [u8]) -> Self { unsafe { ghost::DESERIALIZERS += 1; } Deserializer { rd: ReadRefReader(rd), depth: None } }
}
impl<R> Deserializer<R> {
	pub fn set_max_depth(&mut self, d: usize) { self.depth = Some(d); }
}

impl<'de, 'a, R: Src> serde::Deserializer<'de> for &'a mut Deserializer<R> {
	type Error = decode::Error;
	fn deserialize_any<V: serde::de::Visitor<'de>>(self, v: V) -> Result<V::Value, decode::Error> {
		unsafe {
			match self.depth { None => ghost::USED_WITHOUT_DEPTH = true, Some(d) => ghost::DEPTH_SEEN = d }
		}
		// marker byte
		match self.rd.take1() {
			Err(e) => return Err(decode::Error::InvalidMarkerRead(e)),
			Ok(false) => return Err(decode::Error::InvalidMarkerRead(io::Error::from(io::ErrorKind::UnexpectedEof))),
			Ok(true) => {}
		}
		// zero or one payload byte, then an outcome
		if kani::any() {
			match self.rd.take1() {
				Err(e) => return Err(decode::Error::InvalidDataRead(e)),
				Ok(false) => return Err(decode::Error::InvalidDataRead(io::Error::from(io::ErrorKind::UnexpectedEof))),
				Ok(true) => {}
			}
		}
		match kani::any::<u8>() % 4 {
			0 => { unsafe { ghost::DOCS += 1; } v.visit_unit() }
			1 => { unsafe { ghost::DOCS += 1; } v.visit_bool(kani::any()) }
			2 => Err(decode::Error::DepthLimitExceeded),
			_ => Err(decode::Error::TypeMismatch(rmp::Marker::Reserved)),
		}
	}
	serde::forward_to_deserialize_any! {
		bool i8 i16 i32 i64 i128 u8 u16 u32 u64 u128 f32 f64 char str string
		bytes byte_buf option unit unit_struct newtype_struct seq tuple
		tuple_struct map struct enum identifier ignored_any
	}
}

pub struct Serializer<W>(W);
impl<W: io::Write> Serializer<W> { pub fn new(w: W) -> Self { Serializer(w) } }
impl<'a, W: io::Write> serde::Serializer for &'a mut Serializer<W> {
	type Ok = ();
	type Error = encode::Error;
	type SerializeSeq = serde::ser::Impossible<(), encode::Error>;
	type SerializeTuple = serde::ser::Impossible<(), encode::Error>;
	type SerializeTupleStruct = serde::ser::Impossible<(), encode::Error>;
	type SerializeTupleVariant = serde::ser::Impossible<(), encode::Error>;
	type SerializeMap = serde::ser::Impossible<(), encode::Error>;
	type SerializeStruct = serde::ser::Impossible<(), encode::Error>;
	type SerializeStructVariant = serde::ser::Impossible<(), encode::Error>;
	fn serialize_bool(self, v: bool) -> Result<(), encode::Error> { self.0.write_all(&[if v { 0xc3 } else { 0xc2 }]).map_err(encode::Error::InvalidValueWrite) }
	fn serialize_unit(self) -> Result<(), encode::Error> { self.0.write_all(&[0xc0]).map_err(encode::Error::InvalidValueWrite) }
	fn serialize_i8(self, _: i8) -> Result<(), encode::Error> { unimplemented!() }
	fn serialize_i16(self, _: i16) -> Result<(), encode::Error> { unimplemented!() }
	fn serialize_i32(self, _: i32) -> Result<(), encode::Error> { unimplemented!() }
	fn serialize_i64(self, _: i64) -> Result<(), encode::Error> { unimplemented!() }
	fn serialize_u8(self, _: u8) -> Result<(), encode::Error> { unimplemented!() }
	fn serialize_u16(self, _: u16) -> Result<(), encode::Error> { unimplemented!() }
	fn serialize_u32(self, _: u32) -> Result<(), encode::Error> { unimplemented!() }
	fn serialize_u64(self, _: u64) -> Result<(), encode::Error> { unimplemented!() }
	fn serialize_f32(self, _: f32) -> Result<(), encode::Error> { unimplemented!() }
	fn serialize_f64(self, _: f64) -> Result<(), encode::Error> { unimplemented!() }
	fn serialize_char(self, _: char) -> Result<(), encode::Error> { unimplemented!() }
	fn serialize_str(self, _: &str) -> Result<(), encode::Error> { unimplemented!() }
	fn serialize_bytes(self, _: &[u8]) -> Result<(), encode::Error> { unimplemented!() }
	fn serialize_none(self) -> Result<(), encode::Error> { unimplemented!() }
	fn serialize_some<T: ?Sized + serde::Serialize>(self, _: &T) -> Result<(), encode::Error> { unimplemented!() }
	fn serialize_unit_struct(self, _: &'static str) -> Result<(), encode::Error> { unimplemented!() }
	fn serialize_unit_variant(self, _: &'static str, _: u32, _: &'static str) -> Result<(), encode::Error> { unimplemented!() }
	fn serialize_newtype_struct<T: ?Sized + serde::Serialize>(self, _: &'static str, _: &T) -> Result<(), encode::Error> { unimplemented!() }
	fn serialize_newtype_variant<T: ?Sized + serde::Serialize>(self, _: &'static str, _: u32, _: &'static str, _: &T) -> Result<(), encode::Error> { unimplemented!() }
	fn serialize_seq(self, _: Option<usize>) -> Result<Self::SerializeSeq, encode::Error> { unimplemented!() }
	fn serialize_tuple(self, _: usize) -> Result<Self::SerializeTuple, encode::Error> { unimplemented!() }
	fn serialize_tuple_struct(self, _: &'static str, _: usize) -> Result<Self::SerializeTupleStruct, encode::Error> { unimplemented!() }
	fn serialize_tuple_variant(self, _: &'static str, _: u32, _: &'static str, _: usize) -> Result<Self::SerializeTupleVariant, encode::Error> { unimplemented!() }
	fn serialize_map(self, _: Option<usize>) -> Result<Self::SerializeMap, encode::Error> { unimplemented!() }
	fn serialize_struct(self, _: &'static str, _: usize) -> Result<Self::SerializeStruct, encode::Error> { unimplemented!() }
	fn serialize_struct_variant(self, _: &'static str, _: u32, _: &'static str, _: usize) -> Result<Self::SerializeStructVariant, encode::Error> { unimplemented!() }
}
