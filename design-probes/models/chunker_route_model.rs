//! Route-recording model of the chunker: notes that the re-encoding route was taken, yields nothing.
use std::io::{self, Read};
pub(super) static mut CHUNKER_USED: bool = false;
pub(super) struct Chunker<R: Read> { _r: R }
impl<R: Read> Chunker<R> {
	pub(super) fn new(reader: R) -> Self { unsafe { CHUNKER_USED = true; } Chunker { _r: reader } }
}
pub(super) struct Document { content: String }
impl Document {
	pub(super) fn content(&self) -> &str { &self.content }
	pub(super) fn is_collection(&self) -> bool { true }
}
impl<R: Read> Iterator for Chunker<R> {
	type Item = io::Result<Document>;
	fn next(&mut self) -> Option<io::Result<Document>> { None }
}
