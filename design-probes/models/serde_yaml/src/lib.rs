//! Behavioural model of the part of serde_yaml that xt uses.
#![allow(static_mut_refs)]
use std::fmt;
use std::io;

pub mod ghost {
	pub static mut TEXT: [u8; 16] = [0; 16];
	pub static mut TEXT_LEN: usize = 0;
	pub static mut FROM_STR_CALLS: usize = 0;
}

#[derive(Debug)]
pub struct Error;
impl fmt::Display for Error { fn fmt(&self, _: &mut fmt::Formatter) -> fmt::Result { Ok(()) } }
impl std::error::Error for Error {}
impl serde::de::Error for Error { fn custom<T: fmt::Display>(_: T) -> Self { Error } }
impl serde::ser::Error for Error { fn custom<T: fmt::Display>(_: T) -> Self { Error } }

pub struct Deserializer<'de> { docs: usize, _p: std::marker::PhantomData<&'de str> }
impl<'de> Deserializer<'de> {
	pub fn from_str(s: &'de str) -> Self {
		unsafe {
			ghost::FROM_STR_CALLS += 1;
			let b = s.as_bytes();
			let mut i = 0;
			while i < b.len() { if ghost::TEXT_LEN < 16 { ghost::TEXT[ghost::TEXT_LEN] = b[i]; } ghost::TEXT_LEN += 1; i += 1; }
		}
		let docs: usize = kani::any();
		kani::assume(docs <= 2);
		Deserializer { docs, _p: std::marker::PhantomData }
	}
}
impl<'de> Iterator for Deserializer<'de> {
	type Item = Deserializer<'de>;
	fn next(&mut self) -> Option<Deserializer<'de>> {
		if self.docs == 0 { None } else { self.docs -= 1; Some(Deserializer { docs: 0, _p: std::marker::PhantomData }) }
	}
}
impl<'de> serde::Deserializer<'de> for Deserializer<'de> {
	type Error = Error;
	fn deserialize_any<V: serde::de::Visitor<'de>>(self, v: V) -> Result<V::Value, Error> {
		if kani::any() { v.visit_unit() } else { Err(Error) }
	}
	serde::forward_to_deserialize_any! {
		bool i8 i16 i32 i64 i128 u8 u16 u32 u64 u128 f32 f64 char str string
		bytes byte_buf option unit unit_struct newtype_struct seq tuple
		tuple_struct map struct enum identifier ignored_any
	}
}
pub fn to_writer<W: io::Write, T: ?Sized + serde::Serialize>(w: W, v: &T) -> Result<(), Error> {
	let mut s = Serializer::new(w);
	v.serialize(&mut s)
}

pub struct Serializer<W>(W);
impl<W: io::Write> Serializer<W> { pub fn new(w: W) -> Self { Serializer(w) } }
impl<'a, W: io::Write> serde::Serializer for &'a mut Serializer<W> {
	type Ok = ();
	type Error = Error;
	type SerializeSeq = serde::ser::Impossible<(), Error>;
	type SerializeTuple = serde::ser::Impossible<(), Error>;
	type SerializeTupleStruct = serde::ser::Impossible<(), Error>;
	type SerializeTupleVariant = serde::ser::Impossible<(), Error>;
	type SerializeMap = serde::ser::Impossible<(), Error>;
	type SerializeStruct = serde::ser::Impossible<(), Error>;
	type SerializeStructVariant = serde::ser::Impossible<(), Error>;
	fn serialize_bool(self, v: bool) -> Result<(), Error> { self.0.write_all(if v { b"true\n" } else { b"false\n" }).map_err(|_| Error) }
	fn serialize_unit(self) -> Result<(), Error> { self.0.write_all(b"null\n").map_err(|_| Error) }
	fn serialize_i8(self, _: i8) -> Result<(), Error> { unimplemented!() }
	fn serialize_i16(self, _: i16) -> Result<(), Error> { unimplemented!() }
	fn serialize_i32(self, _: i32) -> Result<(), Error> { unimplemented!() }
	fn serialize_i64(self, _: i64) -> Result<(), Error> { unimplemented!() }
	fn serialize_u8(self, _: u8) -> Result<(), Error> { unimplemented!() }
	fn serialize_u16(self, _: u16) -> Result<(), Error> { unimplemented!() }
	fn serialize_u32(self, _: u32) -> Result<(), Error> { unimplemented!() }
	fn serialize_u64(self, _: u64) -> Result<(), Error> { unimplemented!() }
	fn serialize_f32(self, _: f32) -> Result<(), Error> { unimplemented!() }
	fn serialize_f64(self, _: f64) -> Result<(), Error> { unimplemented!() }
	fn serialize_char(self, _: char) -> Result<(), Error> { unimplemented!() }
	fn serialize_str(self, _: &str) -> Result<(), Error> { unimplemented!() }
	fn serialize_bytes(self, _: &[u8]) -> Result<(), Error> { unimplemented!() }
	fn serialize_none(self) -> Result<(), Error> { unimplemented!() }
	fn serialize_some<T: ?Sized + serde::Serialize>(self, _: &T) -> Result<(), Error> { unimplemented!() }
	fn serialize_unit_struct(self, _: &'static str) -> Result<(), Error> { unimplemented!() }
	fn serialize_unit_variant(self, _: &'static str, _: u32, _: &'static str) -> Result<(), Error> { unimplemented!() }
	fn serialize_newtype_struct<T: ?Sized + serde::Serialize>(self, _: &'static str, _: &T) -> Result<(), Error> { unimplemented!() }
	fn serialize_newtype_variant<T: ?Sized + serde::Serialize>(self, _: &'static str, _: u32, _: &'static str, _: &T) -> Result<(), Error> { unimplemented!() }
	fn serialize_seq(self, _: Option<usize>) -> Result<Self::SerializeSeq, Error> { unimplemented!() }
	fn serialize_tuple(self, _: usize) -> Result<Self::SerializeTuple, Error> { unimplemented!() }
	fn serialize_tuple_struct(self, _: &'static str, _: usize) -> Result<Self::SerializeTupleStruct, Error> { unimplemented!() }
	fn serialize_tuple_variant(self, _: &'static str, _: u32, _: &'static str, _: usize) -> Result<Self::SerializeTupleVariant, Error> { unimplemented!() }
	fn serialize_map(self, _: Option<usize>) -> Result<Self::SerializeMap, Error> { unimplemented!() }
	fn serialize_struct(self, _: &'static str, _: usize) -> Result<Self::SerializeStruct, Error> { unimplemented!() }
	fn serialize_struct_variant(self, _: &'static str, _: u32, _: &'static str, _: usize) -> Result<Self::SerializeStructVariant, Error> { unimplemented!() }
}
