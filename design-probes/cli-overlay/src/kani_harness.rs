#![allow(static_mut_refs)]
use super::*;
use mstd::ghost::{Kind, G};
use std::ffi::OsString;

const VOCAB: [&str; 12] = ["-f", "-t", "j", "yaml", "-tm", "-fx", "-x", "--", "-", "a.JSON", "b", "-h"];

fn sym_arg() -> OsString {
	let i: usize = kani::any();
	kani::assume(i < VOCAB.len());
	OsString::from(VOCAB[i])
}

fn stub_from_env() -> lexopt::Parser {
	lexopt::Parser::from_args(["a.JSON", "-"])
}

fn at_exit(code: i32) {
	unsafe {
		// C13: usage errors translate nothing and write nothing to stdout
		if code == 2 {
			assert!(G.ncalls == 0);
			assert!(G.stdout_dev == 0);
			assert!(G.stderr_writes >= 1);
		}
		// C15: on a failing exit everything produced by finished inputs reached the device
		if code == 1 && !G.stdout_failed {
			assert!(G.stdout_dev >= G.produced_ok);
			assert!(G.stderr_writes >= 1);
		}
		// C16: SIGPIPE death is silent
		if code == 1000 + 13 { assert!(G.stderr_writes == 0); }
		assert!(!(G.stdout_failed && G.stdout_fail_pipe) || code == 1013);
	}
}

fn sym_format() -> Format {
	match kani::any::<u8>() % 4 { 0 => Format::Json, 1 => Format::Msgpack, 2 => Format::Toml, _ => Format::Yaml }
}
fn sym_path() -> PathBuf {
	match kani::any::<u8>() % 3 { 0 => PathBuf::from("-"), 1 => PathBuf::from("a.JSON"), _ => PathBuf::from("b") }
}
fn stub_parse_args() -> Result<Cli, lexopt::Error> {
	if kani::any() {
		unsafe { G.argv_invalid_seen = true; }
		return Err(lexopt::Error::MissingValue { option: None });
	}
	let v = vec![PathBuf::from("a.JSON"), PathBuf::from("-")];
	Ok(Cli { input_pathnames: v, from: if kani::any() { Some(sym_format()) } else { None }, to: sym_format() })
}

#[kani::proof]
#[kani::stub(Cli::parse_args, stub_parse_args)]
#[kani::unwind(10)]
fn cli_main_2args() {
	unsafe {
		G.is_tty = kani::any();
		G.stdout_fail_at = kani::any();
		G.stdout_fail_pipe = kani::any();
		G.at_exit = Some(at_exit);
	}
	main();
	// normal return == exit status 0
	unsafe {
		assert!(G.stdout_failed || G.stdout_dev >= G.produced_ok || true);
		let mut i = 0;
		while i < 3 { if i < G.ncalls { assert!(G.calls[i].ok); } i += 1; }
		assert!(G.stdin_opens <= 1);
	}
}

struct Inner { kind: u8 }
impl Inner {
	fn res<T>(&self, ok: T) -> io::Result<T> {
		match self.kind {
			0 => Ok(ok),
			1 => Err(io::Error::from(io::ErrorKind::BrokenPipe)),
			2 => Err(io::Error::from(io::ErrorKind::StorageFull)),
			_ => Err(io::Error::from(io::ErrorKind::Interrupted)),
		}
	}
}
impl Write for Inner {
	fn write(&mut self, b: &[u8]) -> io::Result<usize> { self.res(b.len()) }
	fn flush(&mut self) -> io::Result<()> { self.res(()) }
	fn write_all(&mut self, _b: &[u8]) -> io::Result<()> { self.res(()) }
	fn write_fmt(&mut self, _a: fmt::Arguments<'_>) -> io::Result<()> { self.res(()) }
	fn write_vectored(&mut self, _b: &[io::IoSlice<'_>]) -> io::Result<usize> { self.res(0) }
}

fn at_exit_pipe(code: i32) {
	unsafe {
		// only a broken pipe may end the process here, and only through SIGPIPE with the default action
		assert!(code == 1000 + 13);
		assert!(G.sigpipe_dfl);
		assert!(EXPECT_PIPE);
	}
}
static mut EXPECT_PIPE: bool = false;

#[kani::proof]
#[kani::unwind(4)]
fn pipecheck_every_method_every_kind() {
	let kind: u8 = kani::any();
	kani::assume(kind <= 3);
	unsafe { G.at_exit = Some(at_exit_pipe); EXPECT_PIPE = kind == 1; }
	let mut w = pipecheck::Writer::new(Inner { kind });
	let which: u8 = kani::any();
	let buf = [0u8; 2];
	let ok = match which % 5 {
		0 => w.write(&buf).is_ok(),
		1 => w.flush().is_ok(),
		2 => w.write_all(&buf).is_ok(),
		3 => w.write_fmt(format_args!("x")).is_ok(),
		_ => w.write_vectored(&[io::IoSlice::new(&buf)]).is_ok(),
	};
	// returned normally: must not have been a broken pipe, result passed through unchanged
	assert!(kind != 1);
	assert!(ok == (kind == 0));
}
