// solver counterexample of harness c2p_overclaim_panics (a prefix request against a source that over-reports (claims more bytes than the buffer holds) ends in a clean panic - it never returns normally with bytes the source did not write (kani::should_panic: a panic and no memory-safety failure))
// failed checks: should_panic harness ran to its end: no panic where the property demands one

// ---- native confirmation through the real crates and the public API ----
// run-native: cp /verif/replay/overclaim_native.rs <xt checkout>/tests/ && cargo test --offline --test overclaim_native

// ---- native confirmation through the real crates and the public API ----
// run-native: cp /verif/replay/overclaim_native.rs <xt checkout>/tests/ && cargo test --offline --test overclaim_native

// ---- native confirmation through the real crates and the public API ----
// run-native: cp /verif/replay/overclaim_native.rs <xt checkout>/tests/ && cargo test --offline --test overclaim_native
