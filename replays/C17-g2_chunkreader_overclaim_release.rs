// solver counterexample of harness g2_chunkreader_overclaim_release (G2 over-claim harness under the semantics of the release build (debug-assertions off, so debug_assert! and std's debug-only precondition checks are compiled out): the over-claim still ends in a clean panic with no memory-safety failure)
// failed checks: Offset value overflows isize (lib.rs:57); dereference failure: pointer invalid (mod.rs:647); Offset result address must equal original pointer address plus offset (lib.rs:57); Offset result and original pointer must point to the same allocation (lib.rs:57)

// ---- native confirmation through the real crates and the public API ----
// run-native: cp /verif/replay/overclaim_native.rs <xt checkout>/tests/ && cargo test --offline --test overclaim_native

// ---- native confirmation through the real crates and the public API ----
// run-native: cp /verif/replay/overclaim_native.rs <xt checkout>/tests/ && cargo test --offline --release --test overclaim_native
