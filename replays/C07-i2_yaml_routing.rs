// solver counterexample of harness i2_yaml_routing (yaml::transcode slice input: exactly one route; the raw-bytes fast path only when Encoding::detect says UTF-8 (otherwise a slice is parsed differently from the same bytes through a reader))
// failed checks: "I2: the raw-bytes fast path is only for streams that are UTF-8 by the YAML encoding rules" (yaml.rs:32)

// ---- native confirmation through the real crates and the public API ----
// run-native: cp /verif/replay/defects_native.rs <xt checkout>/tests/ && cargo test --offline --test defects_native
