// Native replay of a Kani counterexample.
// harness: a2_seq_step  (module msgpack, overlay e1)
// tree: 
// run: /verif/bin/check --replay /verif/replays/C18-a2_seq_step.rs
/// Test generated for harness `msgpack::verif_kani::a2_seq_step` 
///
/// Check for `assertion`: ""A2: element k is sized on exactly the bytes after elements 0..k, one level deeper""
///
/// # Warning
///
/// Concrete playback tests combined with stubs or contracts is highly
/// experimental, and subject to change.
///
/// The original harness has stubs which are not applied to this test.
/// This may cause a mismatch of non-deterministic values if the stub
/// creates any non-deterministic value.
/// The execution path may also differ, which can be used to refine the stub
/// logic.

#[test]
fn kani_concrete_playback_a2_seq_step_12594471172555946746() {
    let concrete_vals: Vec<Vec<u8>> = vec![
        // 0
        vec![0],
        // 0
        vec![0],
        // 0
        vec![0],
        // 0
        vec![0],
        // 0
        vec![0],
        // 0
        vec![0],
        // 0
        vec![0],
        // 0
        vec![0],
        // 8ul
        vec![8, 0, 0, 0, 0, 0, 0, 0],
        // 1ul
        vec![1, 0, 0, 0, 0, 0, 0, 0],
        // 1
        vec![1, 0, 0, 0],
        // 0
        vec![0],
        // 192
        vec![192],
    ];
    kani::concrete_playback_run(concrete_vals, a2_seq_step);
}

// ---- native confirmation on the real, unstubbed code ----
// counterexample inputs: {"buf": [0], "len": 0, "d": 0, "count": 0, "harness": "a2_seq_step"}
// run-native: XT_VERIF_CE=<json file with the line above> cargo test --offline --lib verif_native::replay (test file /verif/replay/msgpack_native.rs injected into src/msgpack.rs)
// NATIVE-MISMATCH next_value_size([91, 01, 02], depth_limit=1) = Ok(Ok(2)), reference = Err(2) (Err codes: 0 Truncated, 1 InvalidMarker, 2 DepthLimitExceeded)
// NATIVE-MISMATCH next_value_size([91, 01, 02, 03], depth_limit=1) = Ok(Ok(2)), reference = Err(2) (Err codes: 0 Truncated, 1 InvalidMarker, 2 DepthLimitExceeded)
// NATIVE-MISMATCH next_value_size([91, 01, 02, 03, 04], depth_limit=1) = Ok(Ok(2)), reference = Err(2) (Err codes: 0 Truncated, 1 InvalidMarker, 2 DepthLimitExceeded)
// NATIVE-MISMATCH next_value_size([91, 01, 02, 03, 04, 05], depth_limit=1) = Ok(Ok(2)), reference = Err(2) (Err codes: 0 Truncated, 1 InvalidMarker, 2 DepthLimitExceeded)
