// solver counterexample of harness d2_attribution (one fault on either side at any position: serializer fault => Error::Ser(genuine serializer error); deserializer fault => Error::De(genuine deserializer error); never the synthetic filler; no serializer call after the fault; a fault is never success)
// failed checks: "D: a serializer failure is not reported as a deserializer error" (transcode_stream.rs:436)

// ---- native confirmation through the real crates and the public API ----
// run-native: cp /verif/replay/stream_native.rs <xt checkout>/tests/ && cargo test --offline --test stream_native
// thread 'writer_fault_at_every_byte_is_attributed_to_the_writer' (14667) panicked at tests/stream_native.rs:73:5: 40 violations, first: ["[1,2,{\"a\":3}] -> JSON: writer failing at byte 2: cause lost: \"translation failed at line 1 column 4\"", "[1,2,{\"a\":3}] -> JSON: writer failing at byte 4: cause lost: \"translation failed at line 1 column 6\"", "[1,2,{\"a\":3}] -> JSON: writer failing at byte 9: cause lost: \"translation failed at line 1 column 11\""]
