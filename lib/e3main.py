#!/opt/veriftools/pyvenv/bin/python3
"""e3main.py <mir file> <source dir> <group> <out.json> [quick|thorough]"""
import json
import sys
import os
import traceback

sys.path.insert(0, os.path.dirname(os.path.abspath(__file__)))
sys.setrecursionlimit(20000)
import xtmir as X
import e3props as E
import e3props2 as E2
import e3props3 as E3

mirf, src, group, outf = sys.argv[1:5]
tier = sys.argv[5] if len(sys.argv) > 5 else "quick"
X.load_enums(os.path.join(src, "src/main.rs"), os.path.join(src, "src/lib.rs"))
rep = E.Report()
out = {"status": "ok", "violations": []}
try:
    mir = X.Mir(mirf)
    if group == "e3_k1_name_tables":
        E.k1_try_parse_format(mir, rep)
        E.k1_extension_format(mir, rep)
        E.k1_input_path_from(mir, rep)
        E.k1_unsafe_for_terminal(mir, rep)
        E.k4_open(mir, rep)
    elif group == "e3_k2_argv_grammar":
        E.k2_parse_args(mir, rep, 4 if tier == "thorough" else 3)
    elif group == "e3_k7_reader_loops":
        X.load_enums(os.path.join(src, "src/input.rs"))
        lib = X.Mir(os.path.join(os.path.dirname(mirf), "lib.mir"))
        n = 4 if tier == "thorough" else 3
        E.k7_loop(lib, rep, r"^msgpack::transcode$", "msgpack", n)
        E.k7_loop(lib, rep, r"^json::transcode$", "json", n)
        E.k7_loop(lib, rep, r"^transcode_reader$", "yaml_reader", n)
    elif group == "e3_k9_chunker":
        X.load_enums(os.path.join(src, "src/yaml/chunker.rs"))
        lib = X.Mir(os.path.join(os.path.dirname(mirf), "lib.mir"))
        E.k9_chunker_next(lib, rep, 4 if tier == "thorough" else 3)
    elif group == "e3_k10_toml_output":
        X.load_enums(os.path.join(src, "src/toml.rs"))
        lib = X.Mir(os.path.join(os.path.dirname(mirf), "lib.mir"))
        E.k10_toml_output(lib, rep)
    elif group == "e3_k11_dispatch":
        lib = X.Mir(os.path.join(os.path.dirname(mirf), "lib.mir"))
        E.k11_translate_dispatch(lib, rep)
    elif group == "e3_k12_framing":
        lib = X.Mir(os.path.join(os.path.dirname(mirf), "lib.mir"))
        E.k12_output_framing(lib, rep)
    elif group == "e3_k14_detect_flush":
        lib = X.Mir(os.path.join(os.path.dirname(mirf), "lib.mir"))
        E.k14_detect_order(lib, rep)
        E.k15_flush(lib, rep)
    elif group == "e3_k13_trials":
        X.load_enums(os.path.join(src, "src/input.rs"))
        lib = X.Mir(os.path.join(os.path.dirname(mirf), "lib.mir"))
        E.k13_input_matches(lib, rep)
        E2.k13b_first_value_only(lib, rep)
    elif group == "e3_k8_from_reader":
        lib = X.Mir(os.path.join(os.path.dirname(mirf), "lib.mir"))
        E.k8_from_reader(lib, rep)
    elif group == "e3_k16_yaml_binding":
        lib = X.Mir(os.path.join(os.path.dirname(mirf), "lib.mir"))
        for q in (lambda: E2.k16_parser_new(lib, rep), lambda: E2.k17_parser_error(lib, rep, src),
                  lambda: E2.k18_next_event(lib, rep, src), lambda: E2.k19_pairing(lib, rep, src)):
            try:
                q()
            except X.Inconclusive as e:
                # a query that cannot be completed must not hide what the others found
                out["status"], out["detail"] = "inconclusive", str(e)
    elif group == "e3_k21_handle":
        lib = X.Mir(os.path.join(os.path.dirname(mirf), "lib.mir"))
        E2.k21_handle_glue(lib, rep, src)
    elif group == "e3_k20_attribution":
        lib = X.Mir(os.path.join(os.path.dirname(mirf), "lib.mir"))
        E3.k20_attribution(lib, rep, src)
    elif group == "e3_main":
        E.k_main(mir, rep, 4 if tier == "thorough" else 3)
    else:
        raise X.Inconclusive("unknown E3 group " + group)
except X.Inconclusive as e:
    out["status"], out["detail"] = "inconclusive", str(e)
except Exception as e:  # an executor bug is never a pass
    out["status"], out["detail"] = "inconclusive", "executor error: %r\n%s" % (e, traceback.format_exc()[-1500:])
out["violations"] = rep.violations
out.update({"paths": rep.paths, "queries": rep.queries, "pruned": rep.pruned, "solver_s": round(rep.solver_s, 2),
            "witnesses": rep.witnesses, "samples": rep.samples})
json.dump(out, open(outf, "w"), indent=1, default=str)
print(json.dumps(out, default=str)[:3000])
