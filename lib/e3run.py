"""Runs the E3 (MIR -> z3) query groups for a property and replays violations against the binary."""
import json
import os
import subprocess
import sys
import time

import xtverif as XV

VT_PY = "/opt/veriftools/pyvenv/bin/python3"

# query id prefix -> properties it speaks for
OWNERS = {"K1.try_parse_format": ["C13", "C14"], "K1.extension_format": ["C14"], "K1.input_path_from": ["C14"],
          "K1.unsafe_for_terminal": ["C13"], "K2": ["C13"], "K3": ["C13", "C16", "C04"], "K4": ["C14", "C03"], "K4.open": ["C14", "C13"],
          "K5": ["C15", "C16"], "K6": ["C16"], "K6.thread": ["C18", "C04"], "K6.translator": ["C08", "C03", "C16"], "K7": ["C03", "C12", "C18", "C02", "C13"], "K8": ["C07", "C02", "C09"], "K9": ["C03", "C02", "C04", "C12", "C09"], "K10": ["C08", "C11", "C15"], "K11": ["C09", "C03"], "K12": ["C03", "C12"], "K13": ["C09", "C12", "C02", "C14"], "K14": ["C09"], "K15": ["C15", "C16", "C12"],
          "K16": ["C04", "C17", "C02", "C03"], "K17": ["C11"], "K18": ["C12", "C11", "C09"], "K19": ["C17", "C04"], "K20": ["C11", "C12", "C04", "C01", "C03", "C16"], "K21": ["C09", "C02", "C12", "C03"]}


# which native CLI scenario groups speak for which property (used when main() deviates from the model in a way owned elsewhere)
GROUP_PROPS = {"g_flush": ["C15", "C16"], "g_exit1": ["C13", "C08"], "g_usage": ["C13"], "g_resolution": ["C14", "C03"], "g_extensions": ["C14"],
               "g_format_names": ["C13", "C14"], "g_pipe": ["C16"], "g_depth": ["C18", "C04"]}


def mir_dump(scratch, logdir):
    src = os.path.join(scratch, "e3-src")
    subprocess.run(["rsync", "-a", "--exclude", "/target", "--exclude", "/.git", XV.REPO.rstrip("/") + "/", src + "/"], check=True)
    env = dict(XV.ENV)
    env["CARGO_TARGET_DIR"] = os.path.join(scratch, "t-e3")
    out = os.path.join(scratch, "main.mir")
    with open(out, "w") as f, open(os.path.join(logdir, "e3-mir.log"), "w") as lf:
        p = subprocess.run(["cargo", "+nightly", "rustc", "--offline", "--bin", "xt", "--", "-Zunpretty=mir", "-C", "debug-assertions=off"],
                           cwd=src, stdout=f, stderr=lf, env=env)
    if p.returncode != 0 or os.path.getsize(out) < 1000:
        return None, src
    with open(os.path.join(scratch, "lib.mir"), "w") as f, open(os.path.join(logdir, "e3-mir-lib.log"), "w") as lf:
        p = subprocess.run(["cargo", "+nightly", "rustc", "--offline", "--lib", "--", "-Zunpretty=mir", "-C", "debug-assertions=off"],
                           cwd=src, stdout=f, stderr=lf, env=env)
    if p.returncode != 0:
        return None, src
    return out, src


def run(prop, hs, scratch, logdir):
    t0 = time.time()
    mir, src = mir_dump(scratch, logdir)
    results = []
    if mir is None:
        for h in hs:
            results.append((h, {"harness": h.name, "verdict": "inconclusive", "detail": "MIR dump failed (the tree does not compile? see e3-mir.log)",
                                "wall_s": 0, "checks": None, "time_s": None, "covers": {}, "failed_checks": []}))
        return results
    dump_s = time.time() - t0
    binary = [None]
    for h in hs:
        t = time.time()
        outf = os.path.join(logdir, h.name + ".json")
        tier_arg = "thorough" if os.environ.get("VERIF_TIER_E3") == "thorough" else "quick"
        try:
            subprocess.run([VT_PY, os.path.join(XV.ROOT, "lib", "e3main.py"), mir, src, h.name, outf, tier_arg],
                           stdout=open(os.path.join(logdir, h.name + ".log"), "w"), stderr=subprocess.STDOUT, timeout=h.timeout)
        except subprocess.TimeoutExpired:
            json.dump({"status": "inconclusive", "detail": "E3 engine timed out after %ds" % h.timeout, "violations": []}, open(outf, "w"))
        try:
            res = json.load(open(outf))
        except Exception:
            res = {"status": "inconclusive", "detail": "E3 engine crashed (see %s.log)" % h.name, "violations": []}
        r = {"harness": h.name, "wall_s": round(time.time() - t + dump_s, 1), "checks": None, "time_s": res.get("solver_s"),
             "covers": {}, "failed_checks": [], "queries": res.get("queries"), "paths": res.get("paths"),
             "witnesses": res.get("witnesses", []), "samples": res.get("samples", [])}
        mine = [v for v in res.get("violations", []) if prop in owners(v[0])]
        others = [v for v in res.get("violations", []) if prop not in owners(v[0])]
        if mine:
            # a recorded violation is replayed natively even if the run as a whole ended inconclusive
            confirm(prop, h, mine, r, scratch, src, logdir, binary)
        elif others and h.name == "e3_main" and prop in sum(GROUP_PROPS.values(), []):
            # main() deviates from the model in a way another property owns (e.g. a restructured input loop). The native
            # scenario groups of THIS property decide whether the deviation also breaks it.
            mygroups = [g for g, ps in GROUP_PROPS.items() if prop in ps]
            confirm(prop, h, others, r, scratch, src, logdir, binary, only_groups=mygroups)
            if r["verdict"] != "violated":
                r["verdict"] = "discharged" if res.get("status") != "inconclusive" else "inconclusive"
                r["detail"] = ("%s paths, %s z3 queries, %.1fs solver (violations owned by other properties: %s; this property's native scenarios behave as demanded)"
                               % (res.get("paths"), res.get("queries"), res.get("solver_s") or 0, sorted(set(v[0] for v in others)))) if r["verdict"] == "discharged" else res.get("detail", "")
        elif res.get("status") == "inconclusive":
            r["verdict"], r["detail"] = "inconclusive", res.get("detail", "")
        else:
            r["verdict"] = "discharged"
            r["detail"] = "%s paths, %s z3 queries, %.1fs solver" % (res.get("paths"), res.get("queries"), res.get("solver_s") or 0)
            if others:
                r["detail"] += " (violations owned by other properties: %s)" % sorted(set(v[0] for v in others))
        results.append((h, r))
    return results


def owners(q):
    best = []
    for k, v in OWNERS.items():
        if q == k or q.startswith(k + ".") or q.split(".")[0] == k:
            if len(k) > len(best[0]) if best else True:
                best = [k, v]
    return best[1] if best else []


def integration(scratch, src, logdir, testfile):
    """native integration test through the real crates (same files as lib/native.py uses)"""
    import re
    import shutil
    name = os.path.splitext(testfile)[0]
    shutil.copy(os.path.join(XV.ROOT, "replay", testfile), os.path.join(src, "tests", testfile))
    env = dict(XV.ENV)
    env["CARGO_TARGET_DIR"] = os.path.join(scratch, "t-e3bin")
    lf = os.path.join(logdir, "e3-" + name + ".log")
    with open(lf, "w") as f:
        subprocess.run(["cargo", "test", "--offline", "--test", name, "--", "--test-threads", "1"], cwd=src, stdout=f, stderr=subprocess.STDOUT, env=env, timeout=1200)
    out = open(lf, errors="replace").read()
    os.remove(os.path.join(src, "tests", testfile))
    if "test result: FAILED" in out:
        return re.findall(r"^(\d+ violations, first:.*)$", out, re.M) or ["native integration test %s failed" % testfile]
    return []


def build_binary(scratch, src, logdir):
    env = dict(XV.ENV)
    env["CARGO_TARGET_DIR"] = os.path.join(scratch, "t-e3bin")
    with open(os.path.join(logdir, "e3-build.log"), "w") as lf:
        p = subprocess.run(["cargo", "build", "--offline", "--bin", "xt"], cwd=src, stdout=lf, stderr=subprocess.STDOUT, env=env)
    b = os.path.join(env["CARGO_TARGET_DIR"], "debug", "xt")
    return b if p.returncode == 0 and os.path.exists(b) else None


def confirm(prop, h, mine, r, scratch, src, logdir, binary, only_groups=None):
    import cli_battery
    if binary[0] is None:
        binary[0] = build_binary(scratch, src, logdir) or False
    replay_path = os.path.join(XV.ROOT, "replays", "%s-%s.txt" % (prop, h.name))
    os.makedirs(os.path.dirname(replay_path), exist_ok=True)
    lines = ["E3 (MIR -> z3) violations for %s, tree %s" % (prop, XV.repo_fingerprint()), ""]
    reproduced = []
    unknown = []
    done_groups = {}
    for q, msg, wit in mine:
        lines.append("[%s] %s" % (q, msg))
        lines.append("    solver witness: %s" % json.dumps(wit))
        kind = (wit or {}).get("kind")
        if not binary[0]:
            unknown.append(q)
            lines.append("    native replay: binary did not build")
            continue
        STREAM = ("loop", "from_reader", "chunker", "toml_output", "dispatch", "framing", "trial", "detect_order", "attribution", "handle")
        YAMLP = ("yaml_parser", "yaml_error", "yaml_pairing")
        if kind in STREAM:
            key = "stream_native"
            if key not in done_groups:
                done_groups[key] = integration(scratch, src, logdir, "stream_native.rs")
        if kind in YAMLP:
            key = "yaml_parser_native"
            if key not in done_groups:
                done_groups[key] = integration(scratch, src, logdir, "yaml_parser_native.rs") or integration(scratch, src, logdir, "stream_native.rs")
        fn = cli_battery.GROUPS.get(kind)
        if only_groups is not None:
            # run exactly the scenario groups of the property under check, whatever the violation's own kind
            key = "only:" + ",".join(only_groups)
            if key not in done_groups:
                allm = []
                for gname in only_groups:
                    gfn = getattr(cli_battery, gname)
                    c = cli_battery.Cli(binary[0])
                    try:
                        allm += ["[%s] %s" % (gname, x) for x in gfn(c, wit)]
                    finally:
                        c.cleanup()
                done_groups[key] = allm
            fn = None
        else:
            key = key if kind in STREAM + YAMLP else (fn.__name__ if fn else None)
        if key in done_groups:
            mism = done_groups[key]
        else:
            ok, mism = cli_battery.replay(binary[0], kind, wit)
            if ok is None:
                unknown.append(q)
                lines.append("    native replay: " + mism[0])
                continue
            if not mism:
                # the scenario group mapped to this kind shows nothing: try every other group as well
                if "_all" not in done_groups:
                    allm = []
                    for gname, gfn in sorted(set((f.__name__, f) for f in cli_battery.GROUPS.values())):
                        if gname != key:
                            c = cli_battery.Cli(binary[0])
                            try:
                                allm += ["[%s] %s" % (gname, x) for x in gfn(c, wit)]
                            finally:
                                c.cleanup()
                    done_groups["_all"] = allm
                mism = done_groups["_all"]
            done_groups[key] = mism
        if mism:
            reproduced.append((q, msg, mism))
            lines.append("    native replay against the real binary (lib/cli_battery.py group %s) REPRODUCED:" % key)
            for m in mism[:6]:
                lines.append("        " + m[:400])
        else:
            lines.append("    native replay (group %s): the concrete scenarios behave as the property demands - not reproduced" % key)
    open(replay_path, "w").write("\n".join(lines) + "\n")
    r["replay"] = replay_path
    summary = "; ".join("[%s] %s" % (q, msg) for q, msg, _ in mine[:3])
    if reproduced:
        r["verdict"] = "violated"
        r["detail"] = summary + " | native replay: " + reproduced[0][2][0][:300]
    else:
        r["verdict"] = "inconclusive"
        r["detail"] = "solver counterexample (%s) did NOT reproduce against the real binary (see %s)" % (summary, replay_path)
