"""Harness registry: which solver queries exist, what they encode, and which property they serve."""
from xtverif import Harness

NOCHK = ["--no-memory-safety-checks", "--no-overflow-checks", "-Z", "unstable-options"]

H = []


def add(*a, **k):
    H.append(Harness(*a, **k))


# ---------------------------------------------------------------------------------------------
# Family A - msgpack size calculator
# ---------------------------------------------------------------------------------------------
A_FUN = ["msgpack::next_value_size", "msgpack::total_seq_size", "msgpack::total_map_size",
         "msgpack::try_read_length"]
A_ASM = ["assume-guarantee cycle A1-A3: each function body is checked against contract stubs of its callees "
         "(child returns Ok(t) with t <= its input length, >= 1 for a non-empty value, or any ReadSizeError); "
         "every recursive call decreases depth_limit and depth_limit == 0 returns at once, so the contracts hold at every depth",
         "64-bit usize (Kani's host target)"]

add("a0_depth_limit_constant", "msgpack", desc="DEPTH_LIMIT == 1024", bounds="constant", functions=["msgpack::DEPTH_LIMIT"],
    props=["C18"], timeout=300, mem_gb=4, replay="playback")
add("a1_nvs_step", "msgpack",
    desc="next_value_size body vs. spec table; one child call on exactly the bytes after the header with the same depth limit; size = header + children; errors propagated; depth 0 rejected before the input is read",
    bounds="input any prefix of 16 symbolic bytes; depth_limit any usize; child result any value allowed by the contract",
    functions=A_FUN, covers=["A1 leaf with payload", "A1 truncated leaf", "A1 map with children",
                             "A1 array32 with children", "A1 depth error from child"],
    props=["C04", "C18", "C02", "C03"], timeout=600, mem_gb=8, assumptions=A_ASM, replay="msgpack")
add("a1_nvs_step_24", "msgpack", desc="A1 with a 24-byte window (fixext16 complete)",
    bounds="input any prefix of 24 symbolic bytes; depth_limit any usize", functions=A_FUN,
    covers=["A1 leaf with payload", "A1 map with children"], tier="thorough",
    props=["C04", "C18"], timeout=1800, mem_gb=12, assumptions=A_ASM, replay="msgpack")
add("a2_seq_step", "msgpack",
    desc="total_seq_size: element k sized on exactly the bytes after elements 0..k with depth_limit-1; total = sum; Truncated iff slice exhausted early; loop bounded by slice length, not by the declared count",
    bounds="input <= 8 B; count any u32; depth_limit any usize >= 1; element sizes any 1..=rest",
    functions=A_FUN, covers=["A2 three elements fill the slice", "A2 huge declared count is rejected without looping"],
    props=["C04", "C18", "C02", "C03"], timeout=600, mem_gb=8, assumptions=A_ASM, replay="msgpack")
add("a2_seq_step_16", "msgpack", desc="A2 with input <= 16 B", bounds="input <= 16 B; count any u32", functions=A_FUN,
    covers=["A2 three elements fill the slice"], tier="thorough", props=["C04", "C18"], timeout=1800, mem_gb=12,
    assumptions=A_ASM, replay="msgpack")
add("a3_map_step", "msgpack",
    desc="total_map_size: two runs of `pairs` elements, the second on the bytes after the first, same depth; size = sum",
    bounds="input <= 8 B; pairs any u32; depth any usize", functions=A_FUN,
    covers=["A3 both runs non-empty", "A3 second run fails"], props=["C04", "C18", "C02", "C03"], timeout=300, mem_gb=8,
    assumptions=A_ASM, replay="msgpack")
add("a4_nvs_full_d1", "msgpack",
    desc="whole recursion without stubs at depth limit 1 equals the reference sizer (every scalar/ext/str/bin width; collections rejected for depth or truncation)",
    bounds="input any prefix of 10 symbolic bytes; depth_limit = 1", functions=A_FUN,
    covers=["A4 ten byte scalar", "A4 depth limit exceeded", "A4 truncated"],
    props=["C04", "C18", "C02"], timeout=900, mem_gb=12, replay="playback")
add("a4_nvs_full_d2", "msgpack",
    desc="whole recursion without stubs at depth limit 2 equals the reference sizer (fix-collections around scalars)",
    bounds="input any prefix of 4 symbolic bytes, no 16/32-bit collection headers; depth_limit = 2", functions=A_FUN,
    covers=["A4 collection with contents sized", "A4 depth limit exceeded"], tier="thorough",
    props=["C04", "C18"], timeout=2400, mem_gb=24, replay="playback")


# ---------------------------------------------------------------------------------------------
# property -> harness selection
# ---------------------------------------------------------------------------------------------

def by_name(n):
    for h in H:
        if h.name == n:
            return h
    raise KeyError(n)


def select(prop, tier):
    out = []
    for h in H:
        if prop in h.props and (tier == "thorough" or h.tier == "quick"):
            out.append(h)
    return out
