"""Harness registry: which solver queries exist, what they encode, and which property they serve."""
from xtverif import Harness

NOCHK = ["--no-memory-safety-checks", "--no-overflow-checks", "-Z", "unstable-options"]

H = []


def add(*a, **k):
    H.append(Harness(*a, **k))


# ---------------------------------------------------------------------------------------------
# Family A - msgpack size calculator
# ---------------------------------------------------------------------------------------------
A_FUN = ["msgpack::next_value_size", "msgpack::total_seq_size", "msgpack::total_map_size",
         "msgpack::try_read_length"]
A_ASM = ["assume-guarantee cycle A1-A3: each function body is checked against contract stubs of its callees "
         "(child returns Ok(t) with t <= its input length, >= 1 for a non-empty value, or any ReadSizeError); "
         "every recursive call decreases depth_limit and depth_limit == 0 returns at once, so the contracts hold at every depth",
         "64-bit usize (Kani's host target)"]

add("a0_depth_limit_constant", "msgpack", desc="DEPTH_LIMIT == 1024", bounds="constant", functions=["msgpack::DEPTH_LIMIT"],
    props=["C18"], timeout=300, mem_gb=4, replay="playback")
add("a1_nvs_step", "msgpack",
    desc="next_value_size body vs. spec table; one child call on exactly the bytes after the header with the same depth limit; size = header + children; errors propagated; depth 0 rejected before the input is read",
    bounds="input any prefix of 16 symbolic bytes; depth_limit any usize; child result any value allowed by the contract",
    functions=A_FUN, covers=["A1 leaf with payload", "A1 truncated leaf", "A1 map with children",
                             "A1 array32 with children", "A1 depth error from child"],
    props=["C04", "C18", "C02", "C03"], timeout=600, mem_gb=8, assumptions=A_ASM, replay="msgpack")
add("a1_nvs_step_24", "msgpack", desc="A1 with a 24-byte window (fixext16 complete)",
    bounds="input any prefix of 24 symbolic bytes; depth_limit any usize", functions=A_FUN,
    covers=["A1 leaf with payload", "A1 map with children"], tier="thorough",
    props=["C04", "C18"], timeout=1800, mem_gb=12, assumptions=A_ASM, replay="msgpack")
add("a2_seq_step", "msgpack",
    desc="total_seq_size: element k sized on exactly the bytes after elements 0..k with depth_limit-1; total = sum; Truncated iff slice exhausted early; loop bounded by slice length, not by the declared count",
    bounds="input <= 8 B; count any u32; depth_limit any usize >= 1; element sizes any 1..=rest",
    functions=A_FUN, covers=["A2 three elements fill the slice", "A2 huge declared count is rejected without looping"],
    props=["C04", "C18", "C02", "C03"], timeout=600, mem_gb=8, assumptions=A_ASM, replay="msgpack")
add("a2_seq_step_16", "msgpack", desc="A2 with input <= 16 B", bounds="input <= 16 B; count any u32", functions=A_FUN,
    covers=["A2 three elements fill the slice"], tier="thorough", props=["C04", "C18"], timeout=1800, mem_gb=12,
    assumptions=A_ASM, replay="msgpack")
add("a3_map_step", "msgpack",
    desc="total_map_size against the contract of next_value_size only (however the implementation walks the entries): 2 * pairs values are sized, each on exactly the bytes after the earlier ones and one level deeper than the map; size = sum; an entry's error is propagated; Truncated exactly when the bytes run out early; a huge declared count does not loop",
    bounds="input <= 8 B; pairs any u32; depth any usize >= 1", functions=A_FUN,
    covers=["A3 two entries fill the slice", "A3 huge declared count is rejected without looping"], props=["C04", "C18", "C02", "C03"], timeout=900, mem_gb=12,
    assumptions=A_ASM, replay="msgpack")
add("a4_nvs_full_d1", "msgpack",
    desc="whole recursion without stubs at depth limit 1 equals the reference sizer (every scalar/ext/str/bin width; collections rejected for depth or truncation)",
    bounds="input any prefix of 10 symbolic bytes; depth_limit = 1", functions=A_FUN,
    covers=["A4 ten byte scalar", "A4 depth limit exceeded", "A4 truncated"],
    props=["C04", "C18", "C02"], timeout=900, mem_gb=12, replay="playback")
add("a4_nvs_full_d2", "msgpack",
    desc="whole recursion without stubs at depth limit 2 equals the reference sizer (fix-collections around scalars)",
    bounds="input any prefix of 4 symbolic bytes, no 16/32-bit collection headers; depth_limit = 2", functions=A_FUN,
    covers=["A4 collection with contents sized", "A4 depth limit exceeded"], tier="thorough",
    props=["C04", "C18"], timeout=900, mem_gb=16, replay="playback", best_effort=True)


# ---------------------------------------------------------------------------------------------
# Family B - YAML re-encoder
# ---------------------------------------------------------------------------------------------
B_FUN = ["yaml::encoding::Encoding::detect", "yaml::encoding::Utf16Decoder::next", "yaml::encoding::Utf16Decoder::next_u16",
         "yaml::encoding::Utf32Decoder::next", "yaml::encoding::Utf8Encoder::read", "yaml::encoding::Utf8Encoder::next_char",
         "yaml::encoding::ArrayBuffer", "yaml::encoding::Encoder::new", "yaml::encoding::Encoder::from_reader", "yaml::encoding::Endianness"]
B_SRC = ["harness reader Chunky: fill_buf hands out a fresh non-deterministic window >= 1 byte whenever the previous one is consumed "
         "(models every short-read pattern of a BufRead source); from a symbolic offset on it fails forever (fault variants)",
         "io::Error values are mem::forget-ten (their drop glue is outside CBMC's reach); error *kinds*/texts are not inspected"]

B_COPY = ["std::io::copy is replaced (#[kani::stub]) by its documented contract: read with arbitrary buffer sizes 1..8 until Ok(0), write_all each piece, "
          "first error returned (std's implementation initialises an 8 KiB stack buffer, i.e. needs unwind 8192)"]
add("b1_detect_table", "yaml::encoding", desc="Encoding::detect equals the YAML 1.2.2 section 5.2 table for every prefix",
    bounds="every prefix of 0..6 bytes, all byte values", functions=B_FUN[:1],
    covers=["B1 utf32le without BOM", "B1 utf16be from a three byte prefix", "B1 one byte is utf8"],
    props=["C07", "C04", "C02"], timeout=240, mem_gb=6)
add("b2_utf16_next", "yaml::encoding",
    desc="Utf16Decoder::next equals the reference decoder (Unicode D91): BMP unit, well-formed pair, lone trail, lead+non-trail (unit kept and re-examined), lead at EOF; every produced char is a scalar value (discharges both from_u32_unchecked sites)",
    bounds="two code units, all 2^32 value pairs; both byte orders; 0..4 bytes present; every windowing of the source",
    functions=B_FUN[1:3], covers=["B2 surrogate pair above plane 1", "B2 lone trail surrogate", "B2 lead followed by non-trail", "B2 lead at end of input"],
    props=["C07", "C17", "C01", "C02"], timeout=1200, mem_gb=10, assumptions=B_SRC, thorough_props=["C04"])
add("b2_utf16_next_fault", "yaml::encoding",
    desc="B2 with a source that fails from a symbolic offset: a fault is Some(Err), never a fabricated char and never a clean end",
    bounds="as B2; fault offset any 0..=len", functions=B_FUN[1:3], covers=["B2 reader fault reached"],
    props=["C12", "C07"], timeout=1200, mem_gb=10, assumptions=B_SRC)
add("b2_utf16_truncated_unit", "yaml::encoding", desc="an odd trailing byte (1 or 3 bytes) is an error after the complete units",
    bounds="3 symbolic bytes, both byte orders", functions=B_FUN[1:3], covers=["B2 truncated second unit"],
    props=["C07"], timeout=1200, mem_gb=8, assumptions=B_SRC, thorough_props=["C04"])
add("b3_utf32_next", "yaml::encoding",
    desc="Utf32Decoder::next: Ok(c) iff 4 bytes present and the value is a scalar (<= 0x10FFFF, not D800-DFFF) and c equals it; 1-3 bytes -> Err; 0 bytes -> None",
    bounds="one code unit, all 2^32 values; both byte orders; 0..4 bytes present; every windowing", functions=B_FUN[3:4],
    covers=["B3 supplementary scalar", "B3 value above U+10FFFF", "B3 surrogate value", "B3 truncated unit"],
    props=["C07", "C04", "C17", "C02"], timeout=300, mem_gb=8, assumptions=B_SRC)
add("b3_utf32_next_fault", "yaml::encoding", desc="B3 with a failing source: fault -> Some(Err)", bounds="as B3; fault offset any 0..=len",
    functions=B_FUN[3:4], covers=["B3 reader fault reached"], props=["C12", "C07"], timeout=300, mem_gb=8, assumptions=B_SRC)
B4_ASM = B_SRC + ["inductive step: the pre-state is ANY Utf8Encoder state with a valid remainder (pos <= len <= 4, non-empty only after start); "
                  "the pending characters are arbitrary chars from a mock iterator, so the step covers streams of any length and any sequence of caller buffer sizes"]
add("b4_utf8_step_quick", "yaml::encoding",
    desc="one Utf8Encoder::read from an arbitrary state: returns min(want, pending) bytes, they are the next bytes of the reference UTF-8 stream (BOM skipped iff first), post-state encodes exactly the rest; remainder indices in range",
    bounds="2 pending chars (all scalar values), remainder any 0..4 bytes, caller buffer 0..5", functions=B_FUN[4:7],
    covers=["B4 char split across two reads", "B4 leading BOM skipped"],
    props=["C07", "C02", "C04"], timeout=1800, mem_gb=12, assumptions=B4_ASM, thorough_props=["C04"])
add("b4_utf8_step_err_quick", "yaml::encoding",
    desc="B4 with an Err item at a symbolic position of the character source: read returns Err exactly when the item is reached, never a short Ok",
    bounds="as b4_utf8_step_quick; error position any 0..=n", functions=B_FUN[4:7], covers=["B4 source error surfaces as Err"],
    props=["C12", "C07"], timeout=1800, mem_gb=12, assumptions=B4_ASM)
add("b4_utf8_step_full", "yaml::encoding", desc="B4 with 3 pending chars and caller buffer 0..9 (covers the direct-encode loop for buffers >= 4 twice)",
    bounds="3 pending chars, remainder any, caller buffer 0..9", functions=B_FUN[4:7], covers=["B4 char split across two reads"],
    tier="thorough", props=["C07", "C04", "C02"], timeout=900, mem_gb=16, assumptions=B4_ASM, best_effort=True)
add("b7_array_buffer_programs", "yaml::encoding",
    desc="ArrayBuffer<4>: every program of 4 operations (write, read, consume, set; fill_buf and is_empty observed after every step) behaves as a bounded FIFO: bytes come out in the order they were accepted, each once; is_empty exactly when everything accepted has been taken; write accepts what still fits; set replaces the content",
    bounds="capacity 4, 4 operations, operands 0..3 bytes of any value", functions=["yaml::encoding::ArrayBuffer::{new,unread,is_empty,set}", "<ArrayBuffer as Read>::read", "<ArrayBuffer as BufRead>::{fill_buf,consume}", "<ArrayBuffer as Write>::write"],
    covers=["B7 second read continues where the first stopped", "B7 filled and drained"], props=["C07", "C02", "C03", "C04"], timeout=600, mem_gb=8)
add("b8_utf8_encoder_from_start", "yaml::encoding", hfile="yaml_encoding_start.rs",
    desc="a fresh Utf8Encoder over three arbitrary characters, read into one large buffer (how reads split characters is B4's subject): the bytes are exactly the UTF-8 encoding of the characters with ONE leading U+FEFF dropped - a U+FEFF anywhere else is data; every read fills its buffer or drains the stream. Driven through the constructor only, so it survives a reorganisation of the encoder's private state (which B4 sets directly)",
    bounds="3 characters (all scalar values), one read of 16 bytes and one more", functions=["yaml::encoding::Utf8Encoder::{new,next_char}", "<Utf8Encoder as Read>::read", "yaml::encoding::ArrayBuffer"],
    covers=["B8 U+FEFF after the byte order mark is data", "B8 three astral characters"], props=["C07", "C01", "C02"], timeout=2400, mem_gb=28, tier="thorough", best_effort=True)
add("b9_next_char_bom_rule", "yaml::encoding", hfile="yaml_encoding_start.rs",
    desc="the byte order mark rule of the re-encoder alone: the characters a fresh Utf8Encoder takes from its source (next_char until the end) are the source's characters in order, each once, except ONE U+FEFF in front of everything; a U+FEFF anywhere else (also directly behind the mark) is data; the end of the source is passed on where it occurred. Driven through new/next_char only: compiles against any reorganisation of the encoder's private state and is cheap enough for the quick tier",
    bounds="0..3 source characters (all scalar values), 4 calls of next_char", functions=["yaml::encoding::Utf8Encoder::{new,next_char}"],
    covers=["B9 U+FEFF directly behind the byte order mark is data", "B9 no mark, U+FEFF later"], props=["C07", "C01", "C02"], timeout=600, mem_gb=8)
add("b5_encoder_utf16", "yaml::encoding",
    desc="Encoder::new(UTF-16) end to end through the real type wiring: output = reference UTF-8 of the decoded scalars, one leading BOM stripped, ill-formed -> Err",
    bounds="0..4 source bytes (2 units), both byte orders, every source windowing, caller buffers 1..5, <= 8 reads", functions=B_FUN,
    covers=["B5 surrogate pair through the composed encoder", "B5 lone BOM yields empty text"],
    props=["C07", "C02"], timeout=900, mem_gb=16, assumptions=B_SRC, tier="thorough", best_effort=True)
add("b5_encoder_utf32", "yaml::encoding", desc="Encoder::new(UTF-32) end to end, two units",
    bounds="0..8 source bytes, both byte orders, every windowing, caller buffers 1..5, <= 10 reads", functions=B_FUN,
    covers=["B5 two supplementary chars"], tier="thorough", props=["C07", "C02"], timeout=900, mem_gb=16, assumptions=B_SRC, best_effort=True)
add("b6_from_reader_prefix", "yaml::encoding",
    desc="Encoder::from_reader: for every windowing of the source the encoding is decided by the first min(4,len) bytes (reference table) and the peeked bytes are chained back: output = reference transcoding of the whole input",
    bounds="0..4 source bytes, all values, every windowing (incl. 1-byte first reads); one read of 12 bytes", functions=B_FUN,
    covers=["B6 utf16le text detected and re-encoded", "B6 utf32le detected"],
    props=["C07", "C02", "C09"], timeout=900, mem_gb=16, assumptions=B_SRC + B_COPY, replay="none", tier="thorough", best_effort=True)
add("b6_from_reader_chain_back", "yaml::encoding",
    desc="Encoder::from_reader on a UTF-8 stream longer than the 4 peeked bytes: the output is the whole input, i.e. the peeked bytes are chained back in front of the rest, for every windowing",
    bounds="0..6 source bytes whose first two bytes are neither NUL nor BOM halves", functions=B_FUN, covers=["B6 utf8 passthrough keeps the peeked bytes"],
    props=["C07", "C02", "C09"], timeout=900, mem_gb=16, assumptions=B_SRC + B_COPY, replay="none", tier="thorough", best_effort=True)
add("b6_from_reader_prefix_8", "yaml::encoding", desc="B6 with 0..8 source bytes", bounds="0..8 source bytes", functions=B_FUN,
    covers=["B6 utf32le detected"], tier="thorough", props=["C07", "C02"], timeout=900, mem_gb=16, assumptions=B_SRC + B_COPY, replay="none", best_effort=True)


# ---------------------------------------------------------------------------------------------
# Family C - rewindable input
# ---------------------------------------------------------------------------------------------
C_FUN = ["input::CaptureReader::read", "input::CaptureReader::rewind", "input::CaptureReader::captured_unread_size",
         "input::CaptureReader::capture_up_to_size", "input::CaptureReader::capture_to_end", "input::CaptureReader::into_inner",
         "input::GuardedCaptureReader", "input::FusedReader::read", "input::Handle::borrow_mut", "input::Ref::prefix",
         "input::Input::from(Handle)", "Cow::try_from(Handle)"]
C_SRC = ["harness source Src: every read() delivers a fresh non-deterministic 1..=min(rest, buf) bytes, 0 at the end; from a symbolic offset on "
         "it fails forever (fault variants) - i.e. every short-read schedule of an honest reader",
         "inductive step: the pre-state is ANY CaptureReader state satisfying the representation invariant (captured = data[..c], "
         "replay position p <= c, EOF flag => c == len, source positioned at c), constructed directly; one operation re-establishes it, "
         "so programs of any length are covered",
         "io::Error values are mem::forget-ten"]
C_RTE = ["std::io::default_read_to_end is replaced (#[kani::stub]) by its documented contract: read until Ok(0) with arbitrary buffer sizes 1..4, "
         "append to the vector, return the first error (std's adaptive implementation runs CBMC out of memory, DESIGN.md section 3)"]

add("c2_capture_read_step", "input",
    desc="CaptureReader::read from an arbitrary valid state: returns the next bytes of the ORIGINAL stream after the replay position, replays from the capture without touching the source, Ok(0) only at the end, EOF flag only when the source returned 0; invariant re-established",
    bounds="data <= 3 B (all values), any captured length / replay position / EOF flag, caller buffer 0..3, every short-read choice of the source",
    functions=C_FUN[:3], covers=["C2 read spans capture and source", "C2 read observes end of source"],
    props=["C09", "C02", "C04", "C01", "C03"], timeout=600, mem_gb=10, assumptions=C_SRC)
add("c4_capture_read_step_fault", "input",
    desc="C2 with a source failing from a symbolic offset: the fault surfaces as Err from the read that hit it, nothing but genuine bytes is captured, EOF is not claimed",
    bounds="as C2; fault offset any 0..=len", functions=C_FUN[:3], covers=["C2 source fault surfaces as Err"],
    props=["C12", "C09"], timeout=600, mem_gb=10, assumptions=C_SRC)
add("c2p_capture_up_to_size", "input",
    desc="capture_up_to_size(size) from an arbitrary valid state: afterwards captured >= min(size, len) for EVERY short-read schedule, position untouched, nothing read when enough is captured, EOF only when the source ended",
    bounds="data <= 3 B, any state, size 0..5", functions=C_FUN[3:4],
    covers=["C2' prefix grows to the requested size", "C2' prefix request hits end of source"],
    props=["C09", "C02", "C04"], timeout=900, mem_gb=24, assumptions=C_SRC + C_RTE, replay="none")
add("c2p_capture_to_end", "input",
    desc="capture_to_end from an arbitrary valid state: captured == data and EOF set; no read when already at EOF; position untouched",
    bounds="data <= 3 B, any state", functions=C_FUN[4:5], covers=["C2' capture_to_end pulls the rest"],
    props=["C09", "C02", "C04"], timeout=900, mem_gb=24, assumptions=C_SRC + C_RTE, replay="none")
add("c4_capture_up_to_size_fault", "input", desc="capture_up_to_size with a failing source: Err, invariant kept, EOF not claimed",
    bounds="as above; fault offset any", functions=C_FUN[3:4], covers=["C2' capture_up_to_size propagates a fault"],
    props=["C12", "C09"], timeout=900, mem_gb=24, assumptions=C_SRC + C_RTE, replay="none")
add("c4_capture_to_end_fault", "input", desc="capture_to_end with a failing source: Err, EOF not claimed",
    bounds="as above; fault offset any", functions=C_FUN[4:5], covers=["C2' capture_to_end propagates a fault"],
    props=["C12", "C09"], timeout=900, mem_gb=24, assumptions=C_SRC + C_RTE, replay="none")
add("c2p_overclaim_panics", "input",
    desc="a prefix request against a source that over-reports (claims more bytes than the buffer holds) ends in a clean panic - it never returns normally with bytes the source did not write (kani::should_panic: a panic and no memory-safety failure)",
    bounds="over-report by 1..4 bytes, request size 1..3", functions=C_FUN[3:4], props=["C17", "C04"], timeout=600, mem_gb=10,
    assumptions=C_RTE, replay="overclaim")
add("c1_capture_programs", "input",
    desc="GuardedCaptureReader<Src>: 2 rounds of rewind + 2 partial reads, then rewind_and_take + into_inner; invariant after every operation; every borrow re-reads from byte 0",
    bounds="data <= 3 B, every read schedule, caller buffers 1..2", functions=C_FUN[:7],
    covers=["C1 whole source captured by reads", "C1 ownership taken mid-stream"], tier="thorough",
    props=["C09", "C02", "C04"], timeout=1800, mem_gb=16, assumptions=C_SRC[:1], best_effort=True)
add("c3f_fused_reader", "input",
    desc="FusedReader<Src>: passes the inner bytes through, drops the inner reader at the first Ok(0) on a non-empty buffer, Ok(0) forever after, zero-length reads do not drop",
    bounds="data <= 3 B, 4 reads with buffers 0..2", functions=C_FUN[7:8], covers=["C3f inner reader dropped at EOF"],
    props=["C09", "C02", "C04"], timeout=600, mem_gb=8, assumptions=C_SRC[:1])
add("c3f_fused_reader_fault", "input",
    desc="FusedReader<Src> over a source that starts failing at a symbolic offset: the error is passed on and does not fuse the reader - a failing source never becomes a clean end of input on a later read; before the fault the bytes pass through in order",
    bounds="data <= 3 B, fault offset 0..len, 4 reads with buffers 1..2", functions=C_FUN[7:8], covers=["C3f fault after two bytes"],
    props=["C12", "C09", "C02"], timeout=600, mem_gb=8, assumptions=C_SRC[:1])
add("c3_handle_programs", "input",
    desc="the real Handle over Box<dyn Read>: up to 2 borrows (prefix request of any size, or 2 partial reads), then Input::from or Cow::try_from: Ref::Slice/Input::Slice only for a fully captured source and equal to the data; the owned reader replays the complete unaltered stream",
    bounds="data <= 3 B, every read schedule, <= 2 borrows", functions=C_FUN, covers=["C3 input became a slice", "C3 chained reader after look-ahead"],
    tier="thorough", props=["C09", "C02"], timeout=900, mem_gb=16, assumptions=C_SRC[:1] + C_RTE + ["Kani -Z restrict-vtable (virtual calls restricted to type-compatible targets)"],
    flags=["-Z", "restrict-vtable"], replay="none", best_effort=True)


# ---------------------------------------------------------------------------------------------
# Family D - streaming transcoder; Family E - transcode::Value
# ---------------------------------------------------------------------------------------------
D_FUN = ["transcode::stream::transcode", "transcode::stream::Visitor (all visit_* methods)", "transcode::stream::Visitor::forward_scalar",
         "transcode::stream::Visitor::visit_seq", "transcode::stream::Visitor::visit_map", "transcode::stream::Forwarder::serialize",
         "transcode::stream::Forwarder::serialize_with_seed", "transcode::stream::SeqSeed/KeySeed/ValueSeed::deserialize", "transcode::stream::State"]
D_ASM = ["mock Deserializer MDe: deserialize_any draws a fresh symbolic event (scalar with symbolic value, Seq/Map with symbolic length hint, or a genuine failure); "
         "SeqAccess/MapAccess decide non-deterministically to end, to fail between entries, or to hand the seed a child deserializer; total events bounded by a fuel counter",
         "mock Serializer MSer monitors online: every serialize_* call must match the single event just emitted (type, value, length hint, role element/key/value); "
         "a symbolic fail_at makes the k-th serializer call position (before an entry, the entry itself, after an entry, end) fail with a genuine error",
         "serde contract assumed of real (de)serializers: each element/key/value is serialized at most once and the error returned by Serialize::serialize is propagated; "
         "a deserializer calls exactly one visitor method per deserialize_any and propagates seed errors",
         "error values are two-variant enums {Genuine, Synthetic}; custom() yields Synthetic, so the transcoder's 'translation failed' filler is distinguishable",
         "depth induction (paper): a parent observes a child only through (result, error_source, into_error) of a fresh Visitor; the nesting-1 check shows a collection child produces only the three outcomes a scalar child produces"]

add("d1a_every_scalar_kind", "transcode::stream",
    desc="each of the 17 scalar kinds the transcoder implements (unit, bool, i8..i128, u8..u128, f32, f64, char, str, bytes; copied and owned visitor forms) reaches the serializer through the same-typed method with the identical value (floats bit for bit), exactly once",
    bounds="1 top-level event, payload any u128 bit pattern, str/bytes <= 2 B", functions=D_FUN[:3],
    covers=["D1a u128 beyond 64 bits", "D1a NaN payload kept bit for bit", "D1a owned byte buffer"],
    props=["C01", "C04"], timeout=300, mem_gb=8, assumptions=D_ASM[:1])
add("d1b_fidelity_structure", "transcode::stream",
    desc="fidelity without faults: every event (i8, u64, unit, seq, map with hints, end) is forwarded exactly once, in order, with the same role (element/key/value alternate correctly) and length hint; Ok only when everything consumed was forwarded",
    bounds="<= 6 events, nesting 1, all scalar values", functions=D_FUN, covers=["D Ok with a filled collection"],
    flags=NOCHK, props=["C01", "C03"], timeout=1500, mem_gb=16, assumptions=D_ASM, replay="stream")
add("d2_attribution", "transcode::stream",
    desc="one fault on either side at any position: serializer fault => Error::Ser(genuine serializer error); deserializer fault => Error::De(genuine deserializer error); never the synthetic filler; no serializer call after the fault; a fault is never success",
    bounds="<= 6 events, nesting 1, serializer fault at any call position (usize), deserializer fault at any event / between entries / before a value",
    functions=D_FUN, covers=["D serializer fault inside a collection", "D deserializer fault inside a collection"],
    flags=NOCHK, props=["C11"], timeout=1800, mem_gb=16, assumptions=D_ASM, replay="stream", thorough_props=["C12"], tier="thorough", best_effort=True)
add("d2b_attribution_nest2_small", "transcode::stream",
    desc="D2 at nesting 2 with 3 events (collection > collection > failing entry): a collection child that reports a deserializer / serializer failure to its parent is attributed correctly - the inductive case the nesting-1 harness cannot produce",
    bounds="<= 3 events, nesting 2, one fault on either side at any position", functions=D_FUN,
    covers=["D2b deserializer fault two levels down", "D2b serializer fault two levels down"],
    flags=NOCHK, props=["C11", "C12"], timeout=900, mem_gb=16, assumptions=D_ASM, replay="stream", tier="thorough", best_effort=True)
add("d2c_de_fault_nest2", "transcode::stream",
    desc="deserializer faults two levels down (collection > collection > failing entry): a collection child that reports a deserializer failure to its parent is attributed to the deserializer with its own error value - the inductive case for nesting depth that the nesting-1 harness cannot produce",
    bounds="<= 3 events, nesting 2, deserializer fault at any position (no serializer faults)", functions=D_FUN,
    covers=["D2c deserializer fault two levels down"], flags=NOCHK, props=[], thorough_props=["C11", "C12"], tier="thorough", best_effort=True,
    timeout=900, mem_gb=16, assumptions=D_ASM, replay="stream")
add("d3_totality", "transcode::stream",
    desc="as D2 with all default checks on (take_parent/unwrap panics, memory safety, overflow)", bounds="<= 4 events, nesting 1, faults anywhere",
    functions=D_FUN, covers=["D serializer fault inside a collection"], props=["C04", "C12"], timeout=2400, mem_gb=16, assumptions=D_ASM, replay="stream", tier="thorough", best_effort=True)
add("d3_totality_small", "transcode::stream",
    desc="as D2 with panic, unwrap/expect, overflow and unwinding checks on (pointer checks off - the transcoder has no unsafe code; the full-check variant d3_totality is in the thorough tier): no panic of the transcoder for any event sequence and any single fault",
    bounds="<= 3 events, nesting 1, faults anywhere", functions=D_FUN, covers=["D deserializer fault inside a collection"],
    flags=["--no-memory-safety-checks", "-Z", "unstable-options"], props=["C04", "C12"], timeout=2400, mem_gb=16, assumptions=D_ASM, replay="stream")
add("d4_nest2", "transcode::stream", desc="D2 at nesting 2 (best effort)", bounds="<= 4 events, nesting 2", functions=D_FUN,
    covers=["D4 nesting two reached"], flags=NOCHK, tier="thorough", props=["C11", "C12", "C01"], timeout=900, mem_gb=16, assumptions=D_ASM, replay="stream", best_effort=True)

E_FUN = ["transcode::value::Value::deserialize (Visitor: all visit_* methods, visit_seq, visit_map)", "transcode::value::Value::serialize"]
add("e1_value_scalars", "transcode::value",
    desc="Value: every scalar kind/value is stored in the same-typed variant and serialized back through the same-typed method with the identical value; borrowed strings stay borrowed",
    bounds="1 scalar, payload any u128 bit pattern, str <= 2 B, visitor form copied/owned/borrowed", functions=E_FUN,
    covers=["E1 borrowed string", "E1 f64"], props=["C01", "C04", "C08"], timeout=600, mem_gb=8)
add("e2_value_structure", "transcode::value",
    desc="Value round trip of structure: deserializing an event sequence and serializing the Value yields the same events, order and roles; collections declare their exact length",
    bounds="<= 4 events, nesting 1, honest length hints <= 4", functions=E_FUN,
    covers=["E2 map with an entry", "E2 seq with two elements"], flags=NOCHK, props=["C01", "C03"], timeout=900, mem_gb=16,
    assumptions=D_ASM[:2], tier="thorough", best_effort=True)


# ---------------------------------------------------------------------------------------------
# Family F - detection driver and dispatch
# ---------------------------------------------------------------------------------------------
F_ASM = ["the four <format>::input_matches trials are replaced (#[kani::stub]) by functions that log their identity, check that the borrow they get starts at byte 0, "
         "and return a symbolic outcome {Ok(false), Ok(true), Err}; what the real trials answer is decided by third-party parsers and is outside the claim"]
add("f1_detect_order_slice", "detect",
    desc="detect_format: trials run in the order MessagePack, JSON, YAML, TOML, each on a borrow starting at byte 0, stop at the first non-false outcome; result is that format / None / that error",
    bounds="all 3^4 outcome combinations; slice handle over 0..2 symbolic bytes", functions=["detect::detect_format", "input::Handle::borrow_mut"],
    covers=["F1 TOML selected last", "F1 nothing detected", "F1 error from the YAML trial"], props=["C09", "C04"], timeout=300, mem_gb=8, assumptions=F_ASM, replay="none")
add("f1_detect_order_reader", "detect", desc="F1 on a reader handle (Box<dyn Read>): additionally every trial re-reads byte 0 after the previous trial consumed it",
    bounds="all outcome combinations; reader handle over 0..2 symbolic bytes", functions=["detect::detect_format", "input::Handle::borrow_mut", "input::CaptureReader::read"],
    covers=["F1 TOML selected last"], tier="thorough", props=["C09"], timeout=900, mem_gb=16, assumptions=F_ASM, flags=["-Z", "restrict-vtable"], replay="none", best_effort=True)
# ---------------------------------------------------------------------------------------------
# Family G - chunker buffer; Family H - libyaml read callback
# ---------------------------------------------------------------------------------------------
G_ASM = ["libyaml mark contract: event offsets lie inside what was read through the ChunkReader and never before the last trim "
         "(start <= offset <= start + captured.len()); libyaml itself cannot be executed symbolically (a concrete 5-byte parse times out, DESIGN.md section 3)"]
add("g1_chunkreader_step", "yaml::chunker",
    desc="ChunkReader::{trim_to_offset,take_to_offset} from an arbitrary buffer state: no panic in try_from/drain/split_off; take: the chunk is exactly the bytes before the offset, the rest stays; trim (DOCUMENT-START): a suffix containing the offset is kept, the start offset accounts for exactly the dropped bytes, and the spaces right in front of the offset - the indentation of the document's first line - are never dropped",
    bounds="captured <= 5 B (all values), start offset any u64, every offset allowed by the mark contract", functions=["yaml::chunker::ChunkReader::trim_to_offset", "yaml::chunker::ChunkReader::take_to_offset"],
    covers=["G1 trim in the middle", "G1 take in the middle", "G1 trim in front of an indented token"], props=["C03", "C04", "C17", "C02", "C01"], timeout=300, mem_gb=8, assumptions=G_ASM)
add("g2_chunkreader_read", "yaml::chunker",
    desc="ChunkReader::read: exactly the bytes the inner reader reports (any short read) are captured and they equal the bytes handed to the parser; an error captures nothing",
    bounds="buffer 0..4, reported length any 0..=size, reader error", functions=["yaml::chunker::ChunkReader::read"],
    covers=["G2 three bytes captured", "G2 reader error"], props=["C03", "C04", "C12", "C17", "C07", "C02"], timeout=300, mem_gb=8)
add("g2_chunkreader_overclaim_panics", "yaml::chunker",
    desc="a reader that claims more bytes than the buffer holds ends in a clean panic (kani::should_panic: a panic and no memory-safety failure)",
    bounds="buffer 0..4, claim any usize > size", functions=["yaml::chunker::ChunkReader::read"], props=["C17"], timeout=300, mem_gb=8, replay="overclaim")
add("g2_chunkreader_overclaim_release", "yaml::chunker", fn="g2_chunkreader_overclaim_panics", overlay="e1r",
    desc="G2 over-claim harness under the semantics of the release build (debug-assertions off, so debug_assert! and std's debug-only precondition checks are compiled out): the over-claim still ends in a clean panic with no memory-safety failure",
    bounds="buffer 0..4, claim any usize > size; [profile.dev] debug-assertions = false", functions=["yaml::chunker::ChunkReader::read"], props=["C17"], timeout=300, mem_gb=8, replay="overclaim")
add("c2p_overclaim_release", "input", fn="c2p_overclaim_panics", overlay="e1r",
    desc="C2'o under the semantics of the release build (debug-assertions off)",
    bounds="over-report by 1..4 bytes, request size 1..3; [profile.dev] debug-assertions = false", functions=C_FUN[3:4], props=["C17", "C04"], timeout=600, mem_gb=10,
    assumptions=C_RTE, replay="overclaim")
add("h1_read_handler_claims", "yaml::chunker::parser",
    desc="Parser::read_handler, two consecutive calls with arbitrary (also shrinking) buffer sizes and a reader claiming ANY length or failing: nothing written beyond buffer_size (canary + pointer checks), *size_read <= buffer_size, the reader is never offered more than buffer_size, failure stashes / success clears the error",
    bounds="destination 8 B, buffer_size 0..8 per call, claim any usize, 2 calls", functions=["yaml::chunker::parser::Parser::read_handler"],
    covers=["H1 second call copies three bytes", "H1 absurd claim rejected"], props=["C17", "C04", "C12"], timeout=900, mem_gb=10)
add("h1_read_handler_null_args", "yaml::chunker::parser", desc="null read_state / buffer / size_read are refused without dereference or side effect",
    bounds="each of the three arguments null", functions=["yaml::chunker::parser::Parser::read_handler"], covers=["H1 null size_read"],
    props=["C17"], timeout=300, mem_gb=8)


# ---------------------------------------------------------------------------------------------
# Family I (+A5, F2) - per-format glue against dependency models (E2-dep overlay)
# ---------------------------------------------------------------------------------------------
DEP = "dep:rmp-serde,serde_json,serde_yaml,toml"
I_ASM = ["E2-dep overlay: the crates rmp-serde, serde_json, serde_yaml and toml are path-replaced by the behavioural models in /verif/models "
         "(xt's glue modules are compiled unmodified against them). Shared token language: a document is one non-blank byte, '!' is a syntax error, blanks separate documents; "
         "model serializers write one token per scalar. What the real parsers/printers accept or print is outside the claim",
         "rmp-serde model: a deserializer consumes >= 1 byte, then hands one value to the visitor or returns ANY decode::Error variant; "
         "InvalidMarkerRead/InvalidDataRead carry the source reader's own error or - exactly at end of input - the synthetic UnexpectedEof rmp creates",
         "harness writer LogW records accepted bytes; optionally accepts a non-deterministic 1..=len bytes per write (short writes) and fails from a symbolic byte offset on"]

add("i1_msgpack_detect_slice", "msgpack", overlay=DEP,
    desc="msgpack::input_matches on a slice never returns Err (a slice cannot report an I/O error): running out of input / syntax error => Ok(false); the trial only runs for a collection first byte, with set_max_depth(DEPTH_LIMIT)",
    bounds="input 0..3 symbolic bytes, every model outcome", functions=["msgpack::input_matches", "msgpack::match_input_buffer"],
    covers=["I1 detected", "I1 candidate skipped"], props=["C09", "C18"], timeout=600, mem_gb=10, assumptions=I_ASM[:2], replay="f2")
add("a5_split_loop", "msgpack", overlay=DEP,
    desc="msgpack::transcode slice branch: documents handed to the deserializers are consecutive, non-empty chunks from byte 0 whose sizes are the size calculator's answers; sizer called with DEPTH_LIMIT; every deserializer gets set_max_depth(DEPTH_LIMIT); any failure stops the loop with Err; Ok only when the chunks cover the input",
    bounds="input 0..3 bytes, sizer answers any 1..=rest or error, output failure at any document",
    functions=["msgpack::transcode (slice branch)"], covers=["A5 three documents", "A5 size error after one document"],
    props=["C03", "C02", "C18", "C12"], timeout=900, mem_gb=12, assumptions=I_ASM[:2] + ["next_value_size replaced by its contract (established by A1-A3)"], replay="none")
add("i4_msgpack_output_framing", "msgpack", overlay=DEP,
    desc="msgpack::Output: two documents are written back to back in order; with short writes the writer still receives exactly the output; a write fault => Err, accepted bytes are a prefix",
    bounds="2 one-token documents, short writes of any pattern, writer fault at any byte", functions=["msgpack::Output::transcode_from", "transcode::stream::transcode"],
    covers=["I4 msgpack short writes"], props=["C03", "C12"], timeout=1500, mem_gb=12, assumptions=I_ASM)
add("i5_yaml_docless_slice", "yaml", overlay=DEP,
    desc="a YAML stream without any document (blank lines) from a slice: the real yaml::transcode fast path against a serde_yaml model that - like the real Loader - hands out ONE void document (visiting `none`) for a document-less stream must not call the output at all and must succeed, because that is what the reader path does with the same bytes (K9: the chunker yields no document; K7: transcode_reader then succeeds without calling the output) and the streaming transcoder refuses a void document (no visit_none)",
    bounds="0..3 blank bytes", functions=["yaml::transcode (slice fast path)"],
    covers=["I5v empty input", "I5v three blank bytes"], props=["C02"], timeout=900, mem_gb=12,
    assumptions=I_ASM + ["serde_yaml: Deserializer::from_str on a stream without documents yields exactly one empty document whose deserialize_any calls visit_none (serde_yaml 0.9 loader.rs, `first` document rule)"], replay="f5")
add("i1_json_detect_slice", "json", overlay=DEP,
    desc="json::input_matches on a slice never returns Err; invalid UTF-8 or a syntax error => Ok(false)", bounds="input 0..3 symbolic bytes",
    functions=["json::input_matches", "json::match_input_str"], covers=["I1j detected", "I1j invalid utf8 skipped"], props=["C09"], timeout=600, mem_gb=10, assumptions=I_ASM[:1])
add("i5_json_slice_loop", "json", overlay=DEP,
    desc="json::transcode slice branch: exactly one transcode_value per document, in input order; a syntax error or an output failure stops the loop and is returned; Ok exactly at a clean end",
    bounds="input 0..4 symbolic bytes, output failure at any document", functions=["json::transcode (slice branch)", "transcode::value::Value::deserialize"],
    covers=["I5j three documents", "I5j syntax error after one document"], props=["C03", "C02"], timeout=900, mem_gb=16, assumptions=I_ASM[:1], thorough_props=["C12"], tier="thorough", best_effort=True)
add("i4_json_output_framing", "json", overlay=DEP,
    desc="json::Output: token, newline per document through both entry points; short writes; write fault at any byte (incl. the newline) => Err with a prefix written",
    bounds="2 one-token documents, any short-write pattern, fault at any byte", functions=["json::Output::transcode_from", "json::Output::transcode_value"],
    covers=["I4 json short writes", "I4 json newline write fails"], props=["C03", "C12"], timeout=900, mem_gb=16, assumptions=I_ASM, tier="thorough", best_effort=True)
add("i2_yaml_routing", "yaml", overlay=DEP,
    desc="yaml::transcode slice input: exactly one route; the raw-bytes fast path only when Encoding::detect says UTF-8 (otherwise a slice is parsed differently from the same bytes through a reader)",
    bounds="input 0..4 symbolic bytes", functions=["yaml::transcode", "yaml::encoding::Encoding::detect"],
    covers=["I2 fast path", "I2 re-encoding route for a valid-UTF-8 slice", "I2 re-encoding route for invalid UTF-8"], props=["C07", "C02"], timeout=1200, mem_gb=12,
    assumptions=I_ASM[:1] + ["yaml::transcode_reader replaced by a stub recording that the re-encoding route was taken (the route itself is family B)"], replay="f3")
add("i5_yaml_slice_loop", "yaml", overlay=DEP,
    desc="yaml::transcode fast path: one transcode_from per document in order; a failing document or output stops the loop", bounds="ASCII input 0..3 bytes, output failure at any document",
    functions=["yaml::transcode (fast path)"], covers=["I5y three documents"], props=["C03"], timeout=900, mem_gb=16, assumptions=I_ASM[:1], thorough_props=["C12"], tier="thorough", best_effort=True)
add("i4_yaml_output_framing", "yaml", overlay=DEP,
    desc="yaml::Output: '---' line before every document through both entry points; short writes deliver exactly the output; write fault at any byte => Err",
    bounds="2 one-token documents, any short-write pattern, fault at any byte", functions=["yaml::Output::transcode_from", "yaml::Output::transcode_value"],
    covers=["I4 yaml short writes", "I4 yaml marker write fails midway"], props=["C03", "C12"], timeout=900, mem_gb=16, assumptions=I_ASM, tier="thorough", best_effort=True)
add("i3_toml_output_first", "toml", overlay=DEP,
    desc="toml::Output, FIRST document: nothing is written unless the root is a table without nulls; exactly its rendering is written; the output is marked used before deserialization; a refused document renders and writes nothing",
    bounds="a document with root in {null,bool,int,seq,map,error}, <= 2 entries, null at any entry, either entry point; writer fault at any byte",
    functions=["toml::Output::transcode_from", "toml::Output::transcode_value", "toml::Output::ensure_one_use", "toml::Output::output_value"],
    covers=["I3 empty table writes nothing and succeeds", "I3 table written", "I3 null in the second entry refused", "I3 array root refused"], props=["C08", "C11"], timeout=900, mem_gb=16,
    assumptions=I_ASM[:1] + ["toml model: Value built from serde events (root kind, entry count), nulls refused as in the real crate, to_string_pretty renders one byte per entry (empty table = empty string) or fails"], tier="thorough", best_effort=True)
add("i3_toml_output_second", "toml", overlay=DEP,
    desc="toml::Output, SECOND document or input after a first one of any fate (incl. an empty table that wrote zero bytes): refused before anything is pulled from its deserializer/value, nothing more written",
    bounds="first: empty table / one-entry table / refused scalar; second: any document, either entry point",
    functions=["toml::Output::transcode_from", "toml::Output::transcode_value", "toml::Output::ensure_one_use"],
    covers=["I3 valid table after an empty table is refused"], props=["C08"], timeout=900, mem_gb=16, assumptions=I_ASM[:1], tier="thorough", best_effort=True)
add("i3_toml_transcode_single_document", "toml", overlay=DEP,
    desc="toml::transcode: the whole input is one document handed to the output exactly once; invalid UTF-8 or a syntax error translates nothing",
    bounds="input 0..3 symbolic bytes", functions=["toml::transcode", "Cow::try_from(Handle)"], covers=["I3t three entries"], props=["C08", "C03"], timeout=900, mem_gb=12, assumptions=I_ASM[:1])
add("f2_dispatch_msgpack", "", overlay=DEP,
    desc="Translator::translate for msgpack: naming the format skips detection and runs exactly its parser; a detected answer is dispatched exactly as if named; no answer / detection error => Err, nothing parsed, nothing written",
    bounds="format named or not, detection answers {none, error, this format}, 1-byte input", functions=["Translator::translate", "Translator::translate_slice", "Dispatcher"],
    covers=["F2 unable to detect", "F2 detected format dispatched", "F2 named format dispatched"], props=["C09"], timeout=900, mem_gb=16,
    assumptions=I_ASM[:1] + ["detect_format replaced by a stub with a symbolic answer (its own logic is family F1)"], replay="none", tier="thorough", best_effort=True)
add("f2_dispatch_json", "", overlay=DEP,
    desc="Translator::translate for json: naming the format skips detection and runs exactly its parser; a detected answer is dispatched exactly as if named; no answer / detection error => Err, nothing parsed, nothing written",
    bounds="format named or not, detection answers {none, error, this format}, 1-byte input", functions=["Translator::translate", "Translator::translate_slice", "Dispatcher"],
    covers=["F2 unable to detect", "F2 detected format dispatched", "F2 named format dispatched"], props=["C09", "C03"], timeout=900, mem_gb=16,
    assumptions=I_ASM[:1] + ["detect_format replaced by a stub with a symbolic answer (its own logic is family F1)"], replay="none", tier="thorough", best_effort=True)
add("f2_dispatch_yaml", "", overlay=DEP,
    desc="Translator::translate for yaml: naming the format skips detection and runs exactly its parser; a detected answer is dispatched exactly as if named; no answer / detection error => Err, nothing parsed, nothing written",
    bounds="format named or not, detection answers {none, error, this format}, 1-byte input", functions=["Translator::translate", "Translator::translate_slice", "Dispatcher"],
    covers=["F2 unable to detect", "F2 detected format dispatched", "F2 named format dispatched"], props=["C09"], timeout=900, mem_gb=16,
    assumptions=I_ASM[:1] + ["detect_format replaced by a stub with a symbolic answer (its own logic is family F1)"], replay="none", tier="thorough", best_effort=True)
add("f2_dispatch_toml", "", overlay=DEP,
    desc="Translator::translate for toml: naming the format skips detection and runs exactly its parser; a detected answer is dispatched exactly as if named; no answer / detection error => Err, nothing parsed, nothing written",
    bounds="format named or not, detection answers {none, error, this format}, 1-byte input", functions=["Translator::translate", "Translator::translate_slice", "Dispatcher"],
    covers=["F2 unable to detect", "F2 detected format dispatched", "F2 named format dispatched"], props=["C09"], timeout=900, mem_gb=16,
    assumptions=I_ASM[:1] + ["detect_format replaced by a stub with a symbolic answer (its own logic is family F1)"], replay="none", tier="thorough", best_effort=True)
add("i4_translator_two_inputs", "", overlay=DEP,
    desc="one Translator, two inputs in different formats, JSON target: the writer holds the ordered concatenation of the per-document translations; flush reaches the writer",
    bounds="first input 2 JSON documents, second 1 document (JSON or YAML); all token values", functions=["Translator::translate_slice", "Translator::flush", "Dispatcher (Output impl)"],
    covers=["I4t two inputs translated"], props=["C03"], timeout=900, mem_gb=16, assumptions=I_ASM[:1], tier="thorough", best_effort=True)


# ---------------------------------------------------------------------------------------------
# Family J - pipecheck (E2-cli overlay)
# ---------------------------------------------------------------------------------------------
J_ASM = ["E2-cli overlay: pipecheck.rs is compiled with the path prefix std:: rewritten to mstd:: (a model crate re-exporting real std items and replacing process::exit) "
         "and a mock libc that records signal(SIGPIPE, SIG_DFL) and makes raise(SIGPIPE) terminal iff the default action is installed; the kernel delivering the signal is outside the claim"]
add("j1_pipecheck_methods", "pipecheck", overlay="cli", crate="bin",
    desc="pipecheck::Writer: for each of write, flush, write_all, write_fmt (literal-only and with arguments), write_vectored and each inner result kind: BrokenPipe => the process ends in the SIGPIPE state (default action installed, not exit()) before the call returns and nothing goes to stderr; every other result is passed through unchanged",
    bounds="6 call forms x 4 result kinds", functions=["pipecheck::Writer (Write impl)", "pipecheck::check_for_broken_pipe", "pipecheck::exit_for_broken_pipe"],
    covers=["J terminated by SIGPIPE", "J1 write_fmt passes a full-device error through"], props=["C16"], timeout=600, mem_gb=8, assumptions=J_ASM, replay="none")
add("j2_write_all_delivers_everything", "pipecheck", overlay="cli", crate="bin",
    desc="write_all through the wrapper over an inner writer that only implements write() with arbitrary short writes: Ok means every byte was delivered in order; a non-pipe failure comes back as Err; a broken pipe terminates by SIGPIPE",
    bounds="3 symbolic bytes, every short-write pattern, failure (pipe / full device) at any inner call", functions=["pipecheck::Writer::write_all"],
    covers=["J2 three one-byte pieces", "J2 full device error returned"], props=["C16", "C15", "C12"], timeout=600, mem_gb=8, assumptions=J_ASM, replay="none")


# ---------------------------------------------------------------------------------------------
# Family K - CLI control flow from MIR (E3: xtmir + z3)
# ---------------------------------------------------------------------------------------------
K_ASM = ["E3: the functions are executed symbolically from rustc's MIR text (cargo +nightly rustc --bin xt -- -Zunpretty=mir); locals are terms of an uninterpreted sort, "
         "references are transparent, library calls are uninterpreted (fresh result) unless listed as interpreted in lib/xtmir.py (Try::branch, FromResidual, Option::{or_else,and_then,map,is_some,unwrap_or}, str/Path equality)",
         "effect model for main(): Translator::translate_* and flush return a symbolic Result; BufWriter keeps output until an explicit flush (its Drop ignores errors); process::exit flushes nothing; "
         "writes to StderrLock/StdoutLock are events; lexopt::Parser::{next,value}, ValueExt::parse_with, File::open, Mmap::map return symbolic results",
         "panic=abort: every terminator in the dumped MIR is `unwind unreachable`, so there are no unwind edges to model"]
K_FUN = ["main", "main::{closure#0}", "Cli::parse_args", "try_parse_format", "format_is_unsafe_for_terminal", "InputPath::from", "InputPath::open",
         "InputPath::extension_format (+closures)", "InputPaths::{one,many}"]
add("e3_k1_name_tables", "", overlay="e3", desc="try_parse_format equals the documented name table for EVERY string (z3 strings, unbounded); extension_format = table(lowercase(utf8(Path::extension))) and None for stdin; InputPath::from maps exactly \"-\" to stdin; format_is_unsafe_for_terminal is true exactly for MessagePack; InputPath::open: stdin unopened, file opened once, mmap success => Mmap, failure => File",
    bounds="unbounded in the strings (uninterpreted library functions); all paths of the five functions", functions=K_FUN[3:8],
    props=["C13", "C14"], timeout=600, mem_gb=4, assumptions=K_ASM)
add("e3_k2_argv_grammar", "", overlay="e3", desc="Cli::parse_args over symbolic token sequences: Err iff lexopt error / repeated -f or -t / invalid format name / unknown option; -V, --version, -h, --help reach exit(0) after writing to stdout only; -f/-t set from/to, to defaults to JSON; positional arguments become inputs",
    bounds="token sequences of length <= 3 (thorough: 4) over 11 symbolic token classes (unknown short option = any other char, unknown long option = any other string)", functions=K_FUN[2:4],
    props=["C13"], timeout=900, mem_gb=4, assumptions=K_ASM)
add("e3_k7_reader_loops", "", overlay="e3",
    desc="the reader-mode document loops of the library (behind Box<dyn Read>, out of Kani's reach) from the library crate's MIR: msgpack::transcode (slice and reader branch), json::transcode (both branches), yaml::transcode_reader: one transcode_from per document in order; a failure of the reader (fill_buf / chunker item), the size calculator, from_utf8, the encoder set-up or the output is returned as Err and nothing is read or translated afterwards; Ok only at the clean end of input; every rmp-serde deserializer gets set_max_depth(DEPTH_LIMIT) before use",
    bounds="<= 3 documents per run (thorough: 4); all outcomes of fill_buf / end / iterator next / transcode_from", functions=["msgpack::transcode", "json::transcode", "yaml::transcode_reader"],
    props=["C03", "C12", "C18", "C02", "C13"], timeout=600, mem_gb=4, assumptions=K_ASM[:1] + ["third-party calls (BufReader::fill_buf, Deserializer::{new,end}, StreamDeserializer::next, Chunker::next) return symbolic results"])
add("e3_k9_chunker", "", overlay="e3",
    desc="yaml::chunker::Chunker::next (which does not fit in Kani) from the library crate's MIR, one call from each abstract pre-state over the libyaml event contract: a document is returned only when the next DOCUMENT-START or STREAM-END is seen (deferred by one) and is exactly the chunk cut at its DOCUMENT-END with the kind of its first content event; DOCUMENT-START trims the capture buffer to the event's start offset; a parser error becomes Some(Err(io::Error::new(InvalidData, ..))); None after STREAM-END without consulting the parser; post-state follows the events",
    bounds="12 abstract pre-states (pending document y/n, kind none/scalar/collection, ended y/n) x event sequences <= 3 (thorough: 4) over 8 symbolic event classes", functions=["yaml::chunker::Chunker::next"],
    props=["C03", "C02", "C09", "C12"], thorough_props=["C04"], timeout=1500, mem_gb=4,
    assumptions=K_ASM[:1] + ["libyaml event contract: event types as in unsafe_libyaml::yaml_event_type_t; ChunkReader::{trim_to_offset,take_to_offset} are checked separately (G1); String::from_utf8(..).unwrap() is uninterpreted (marks inside a multi-byte character are outside the contract)"])
add("e3_k10_toml_output", "", overlay="e3",
    desc="toml::Output::{transcode_from, transcode_value} (+ ensure_one_use, output_value, inlined) from the library crate's MIR, one call from used = false and from used = true: a second use is refused with MultiDocument before anything is pulled and nothing is written; the used flag is set BEFORE the document is deserialized; a value the TOML type refuses, a non-table root or a render error => Err and no write; a table => exactly one write_all of the rendering, Ok iff it succeeded",
    bounds="one call of each entry point from each value of the used flag; all outcomes of Value construction, rendering, writing", functions=["toml::Output::transcode_from", "toml::Output::transcode_value", "toml::Output::ensure_one_use", "toml::Output::output_value"],
    props=["C08", "C11", "C15"], timeout=300, mem_gb=4, assumptions=K_ASM[:1] + ["toml::Value::{deserialize,try_from}, toml::to_string_pretty and Write::write_all return symbolic results; Value::Table is variant 6 of toml::Value"])
add("e3_k11_dispatch", "", overlay="e3",
    desc="Translator::translate from the library crate's MIR: a named format skips detection and runs exactly that format's transcode once; otherwise detection runs once and its answer is used exactly as if named; None / detection error => Err and nothing is translated ('unable to detect input format'); the transcoder's verdict is returned",
    bounds="all (named format, detection outcome, transcoder verdict) combinations", functions=["Translator::translate"],
    props=["C09", "C03"], timeout=300, mem_gb=4, assumptions=K_ASM[:1])
add("e3_k12_framing", "", overlay="e3",
    desc="json/yaml/msgpack Output::{transcode_from, transcode_value} from the library crate's MIR: JSON = document body then a newline, YAML = a '---' line then the body, MessagePack = the body only; framing text goes through write_fmt/write_all (whole-text delivery), never a bare write(); Ok iff the body and every framing write succeeded",
    bounds="all outcomes of the body and of each framing write", functions=["json::Output", "yaml::Output", "msgpack::Output"],
    props=["C03", "C12"], timeout=300, mem_gb=4, assumptions=K_ASM[:1])
add("e3_k14_detect_flush", "", overlay="e3",
    desc="detect_format from the library crate's MIR (covers the reader handle too): trial order MessagePack, JSON, YAML, TOML, a fresh borrow of the handle per trial, stop at the first non-'no', that format / None / that error; and the flush chain Translator::flush -> Dispatcher -> <format>::Output::flush -> Write::flush of the Output's own writer with the result passed through",
    bounds="all outcome combinations of the four trials; all four Outputs", functions=["detect::detect_format", "Translator::flush", "Dispatcher::flush", "json/msgpack/yaml/toml::Output::flush"],
    props=["C09", "C15", "C16", "C12"], timeout=300, mem_gb=4, assumptions=K_ASM[:1])
add("e3_k13_trials", "", overlay="e3",
    desc="the four <format>::input_matches trials from the library crate's MIR, slice and reader reference: Err is returned only for an I/O error of the source (prefix request, or a reader error passed on by the trial parser); running out of input (rmp's synthetic UnexpectedEof in marker OR data position), invalid UTF-8, a syntax error, an InvalidData chunker error or no document all mean Ok(false); the MessagePack trial only runs for a collection first byte; the YAML trial looks at a DETECT_LEN = 4 byte prefix; the TOML trial buffers a reader up to exactly 2 MiB (constant evaluated from its MIR) and gives up at or above it",
    bounds="all paths of the four functions; all outcome classes of prefix / from_utf8 / trial parser / chunker", functions=["msgpack::input_matches", "json::input_matches", "yaml::input_matches", "toml::input_matches"],
    props=["C09", "C12", "C14", "C02"], timeout=300, mem_gb=4, assumptions=K_ASM[:1] + ["rmp_serde::decode::Error variant order (InvalidMarkerRead = 0, InvalidDataRead = 1), rmp::Marker collection variants 22..27"])
add("e3_k8_from_reader", "", overlay="e3",
    desc="yaml::encoding::Encoder::from_reader from the library crate's MIR: the detector is given prefix.unread() where the prefix buffer was filled by io::copy(reader.by_ref().take(DETECT_LEN)) - io::copy loops until Take is exhausted, so four bytes are seen for EVERY windowing of the source - and Encoder::new gets prefix.chain(reader) with the detected encoding; a copy failure is returned as Err",
    bounds="all paths of from_reader (data-flow of the four observable calls)", functions=["yaml::encoding::Encoder::from_reader"],
    props=["C07", "C02", "C09"], timeout=300, mem_gb=4, assumptions=K_ASM[:1] + ["documented contract of std::io::copy / Read::take / Read::chain"])
add("e3_k21_handle", "", overlay="e3",
    desc="the rewindable input handle's glue over Box<dyn Read> (out of Kani's reach in the quick tier), from input.rs' MIR: Handle::borrow_mut rewinds the capture reader to position 0 before every loan and lends the slice of everything captured once the source is exhausted, else its own capture reader untouched; From<Handle> for Input rewinds, then hands over Input::Slice(owned captured bytes) if the source is exhausted, the original source if nothing was captured, else (captured bytes from position 0) chained BEFORE (the source); TryFrom<Handle> for Cow rewinds, captures to the end once, returns a source error as it is; Ref::prefix captures up to exactly the requested size once and then reads the buffer, source errors passed through; slice handles pass their bytes through untouched",
    bounds="every path of Handle::borrow_mut, From<Handle> for Input, TryFrom<Handle> for Cow, Ref::prefix with GuardedCaptureReader::{rewind_and_borrow_mut,rewind_and_take}, CaptureReader::{rewind,captured,is_source_eof,into_inner} inlined; arbitrary initial cursor position, buffer, eof flag",
    functions=["input::Handle::borrow_mut", "<Input as From<Handle>>::from", "<Cow<[u8]> as TryFrom<Handle>>::try_from", "input::Ref::prefix", "input::GuardedCaptureReader::{rewind_and_borrow_mut,rewind_and_take}",
               "input::CaptureReader::{rewind,captured,is_source_eof,into_inner}"],
    props=["C09", "C02", "C12"], thorough_props=["C03"], timeout=300, mem_gb=4,
    assumptions=K_ASM[:1] + ["io::Cursor is a (buffer, position) pair: set_position/get_ref/into_inner/new by their documentation; Read::chain(a, b) reads a then b; capture_to_end / capture_up_to_size are the functions decided by the Kani harnesses C2' (here: symbolic result)"])
add("e3_k20_attribution", "", overlay="e3",
    desc="error attribution of the streaming transcoder as an inductive assume-guarantee argument over stream.rs' MIR, valid at EVERY nesting depth: with error values split into REAL (made by the third-party serializer/deserializer) and SYNTHETIC (Error::custom(TRANSLATION_FAILED)), and State's three Cells modelled as heap cells, each of transcode, the 17 scalar visit_* (+forward_scalar), visit_seq, visit_map, SeqSeed/KeySeed/ValueSeed::deserialize (+Forwarder::new, serialize_with_seed, closures) and Forwarder::serialize re-establishes the interface invariant 'source = Ser and the captured error is the serializer's REAL one, or source = De and the returned error is the deserializer's REAL one' from the same invariant of the calls it makes; transcode turns it into Error::Ser(real, _) / Error::De(real); no take_parent()/unwrap() can panic; visit_seq/visit_map pass the announced length on unchanged and each scalar goes to the same-named serializer method with the same value",
    bounds="every path of 26 functions of src/transcode/stream.rs; collections of <= 2 elements per visit_seq/visit_map step (each element uses a fresh seed, so longer collections repeat the same step); nesting depth unbounded (induction over the call structure)",
    functions=["transcode::stream::transcode", "transcode::stream::State::{new,take_parent,capture_error,capture_child_error,error_source,into_error}", "transcode::stream::Visitor::{new,forward_scalar,visit_* x17,visit_seq,visit_map}",
               "transcode::stream::Forwarder::{new,serialize_with_seed,serialize}", "transcode::stream::{SeqSeed,KeySeed,ValueSeed}::{new,deserialize}"],
    props=["C11", "C12", "C04", "C01", "C16"], thorough_props=["C03"], timeout=600, mem_gb=4,
    assumptions=K_ASM[:1] + ["third-party contract (serde conventions): a Deserializer calls at most one visit_* method per deserialize_any and returns a visitor's / seed's error unchanged, otherwise its own (REAL) error without touching the visitor; "
                             "a collection serializer serialises the element it is handed at most once and returns the element's error unchanged, otherwise Ok or its own (REAL) error; every other Serializer method returns Ok or its own error",
                             "Cell<T> is a heap cell identified by its term (Rust's ownership rules make distinct States distinct); Option::expect/unwrap reached with a possible None is reported as a panic"])
add("e3_k16_yaml_binding", "", overlay="e3",
    desc="the libyaml binding's glue from the library crate's MIR. K16 Parser::new: yaml_parser_initialize -> result checked (panic, parser untouched) -> yaml_parser_set_encoding(YAML_UTF8_ENCODING) -> yaml_parser_set_input(read_handler, boxed read state holding the caller's reader, empty error stash), all on the one parser the returned value owns. K17 ParserError::new copies problem/context text and marks (problem_offset as fall-back for the problem only), LocatedError::from_parts computes line+1, column+1 and offset = index or the fall-back, and both Display impls render exactly '<text> at line L column C' / '<text> at position N' and '<problem>[, <context>]' with no other dependence on the data. K18 Parser::next_event: Ok passes through; on failure the io::Error stashed by the read handler is taken and returned, else io::Error::new(InvalidData, ParserError). K19: an Event exists iff yaml_parser_parse reported success (assume_init only then), Event::drop deletes its event once, Parser::drop deletes the parser and then frees the read state, once each",
    bounds="every path of Parser::new, ParserError::new (+closures), LocatedError::from_parts, 2 Display::fmt, Parser::next_event (+closures), Event::parse_next, Event::drop, Parser::drop; struct layouts of yaml_parser_t / yaml_mark_t read from the unsafe-libyaml sources; integers mathematical (line/column + 1 does not wrap)",
    functions=["yaml::chunker::parser::Parser::new", "yaml::chunker::parser::ParserError::new", "yaml::chunker::parser::LocatedError::from_parts", "<ParserError as Display>::fmt", "<LocatedError as Display>::fmt",
               "yaml::chunker::parser::Parser::next_event", "yaml::chunker::parser::Event::parse_next", "<Event as Drop>::drop", "<Parser as Drop>::drop"],
    props=["C04", "C17", "C11", "C12"], thorough_props=["C02", "C03", "C09"], timeout=300, mem_gb=4,
    assumptions=K_ASM[:1] + ["libyaml calls (yaml_parser_*, yaml_event_delete), Box::{new,into_raw,from_raw}, MaybeUninit::{uninit,as_mut_ptr,assume_init}, CStr::from_ptr, to_string_lossy are uninterpreted; references and pointer casts are transparent",
                             "rustc's compact fmt::Arguments template encoding (length-prefixed literals, 0xc0 = next argument)"])
add("e3_main", "", overlay="e3", desc="every path of main(): K3 exit status 2 <=> invalid command line (usage on stderr, nothing on stdout, nothing translated), exit(1) <=> one 'xt error' message naming the input the failure belongs to, 0 <=> all translated and flushed, MessagePack never to a terminal; K4 source format = -f, else extension, else detection, stdin at most once, mmap => slice; K5 every finished input is flushed explicitly before anything else can fail; K6 translator writes through pipecheck::Writer(BufWriter(stdout.lock()))",
    bounds="<= 3 inputs (thorough: 4); all outcomes of parse_args / open / mmap / translate / flush / is_terminal", functions=K_FUN,
    props=["C13", "C14", "C15", "C16", "C04", "C18", "C03", "C08"], timeout=1800, mem_gb=6, assumptions=K_ASM)


# ---------------------------------------------------------------------------------------------
# property -> harness selection
# ---------------------------------------------------------------------------------------------

def by_name(n):
    for h in H:
        if h.name == n:
            return h
    raise KeyError(n)


def select(prop, tier):
    out = []
    for h in H:
        if tier == "thorough":
            if prop in h.props or prop in h.thorough_props:
                out.append(h)
        elif prop in h.props and h.tier == "quick":
            out.append(h)
    return out
