#!/usr/bin/env python3
"""xt verification runner: overlays, Kani/CBMC driver, verdict classifier, replay, evidence.

Everything here regenerates its encoding from /repo's *current working tree* on every
run (the tree is rsync-ed into a scratch overlay under /var/tmp, harness modules from
/verif/harness are injected as #[cfg(kani)] child modules, and cargo kani compiles the
real sources).  See DESIGN.md sections 2, 4 and 8.
"""
import atexit
import json
import os
import re
import shutil
import signal
import subprocess
import sys
import tempfile
import threading
import time

ROOT = os.path.dirname(os.path.dirname(os.path.abspath(__file__)))
REPO = os.environ.get("XT_REPO", "/repo")
SCRATCH_BASE = os.environ.get("XT_VERIF_SCRATCH", "/var/tmp")
CACHE = os.path.join(ROOT, ".cache")

ENV = dict(os.environ)
ENV["CARGO_NET_OFFLINE"] = "true"
ENV.pop("RUSTFLAGS", None)

# module file (relative to the overlay root) -> harness file (relative to /verif/harness)
INJECT = {
    "src/msgpack.rs": "msgpack.rs",
    "src/yaml/encoding.rs": "yaml_encoding.rs",
    "src/input.rs": "input.rs",
    "src/transcode/stream.rs": "transcode_stream.rs",
    "src/transcode/value.rs": "transcode_value.rs",
    "src/detect.rs": "detect.rs",
    "src/lib.rs": "lib.rs",
    "src/yaml/chunker.rs": "yaml_chunker.rs",
    "src/yaml/chunker/parser.rs": "yaml_chunker_parser.rs",
    "src/yaml.rs": "yaml.rs",
    "src/json.rs": "json.rs",
    "src/toml.rs": "toml.rs",
}

_scratch_dirs = []


def _cleanup():
    try:
        kill_others()
    except Exception:
        pass
    for d in _scratch_dirs:
        shutil.rmtree(d, ignore_errors=True)


atexit.register(_cleanup)


def _sig(signum, frame):
    _cleanup()
    os._exit(130)


signal.signal(signal.SIGTERM, _sig)
signal.signal(signal.SIGINT, _sig)


def log(msg):
    print(msg, flush=True)


def new_scratch():
    d = tempfile.mkdtemp(prefix="xt-verif.", dir=SCRATCH_BASE)
    _scratch_dirs.append(d)
    return d


def repo_fingerprint():
    """A short description of the tree being checked (HEAD + dirty flag)."""
    try:
        head = subprocess.run(["git", "-C", REPO, "rev-parse", "--short", "HEAD"],
                              capture_output=True, text=True).stdout.strip()
        dirty = subprocess.run(["git", "-C", REPO, "status", "--porcelain", "--untracked-files=no"],
                               capture_output=True, text=True).stdout.strip()
        return head + ("+dirty" if dirty else "")
    except Exception:
        return "unknown"


# ---------------------------------------------------------------------------
# overlays
# ---------------------------------------------------------------------------

# harness modules that use items of another harness module
HARNESS_DEPS = {"transcode::value": ["transcode::stream"]}


class Overlay:
    """A scratch copy of /repo's working tree with harness modules injected.

    kind 'e1'            : injection only (real dependencies)
    kind 'dep:<a>,<b>'   : additionally path-replace third-party crates by the behavioural
                           models in /verif/models/<name> (E2-dep)
    kind 'cli'           : the E2-cli overlay (main.rs/bail.rs/pipecheck.rs against mstd)
    kind 'e1r'           : as e1, with `debug-assertions = false` in [profile.dev]: the semantics of the
                           release build users run (debug_assert! and cfg!(debug_assertions) compiled out)
    """

    def __init__(self, kind, scratch, modules=None, hfile=None):
        # hfile: an alternative harness file (under /verif/harness) for the single module of this overlay
        self.hfile = hfile
        # modules: rust module paths whose harness files are needed (None = all). Injecting only what the selected
        # queries use keeps a change in an unrelated module from breaking the compilation of these harnesses.
        if modules is not None:
            modules = set(modules)
            for m, deps in HARNESS_DEPS.items():
                if m in modules:
                    modules |= set(deps)
        self.modules = modules
        self.kind = kind
        self.dir = os.path.join(scratch, "ov-" + re.sub(r"[^a-z0-9]+", "-", kind) + ("-" + re.sub(r"[^a-z0-9]+", "-", "_".join(sorted(modules))) if modules else "") + ("-" + re.sub(r"[^a-z0-9]+", "-", hfile) if hfile else ""))
        self.injected = []
        self.models = []
        self._build()

    def _build(self):
        os.makedirs(self.dir)
        subprocess.run(["rsync", "-a", "--exclude", "/target", "--exclude", "/.git", "--exclude", "/fuzz",
                        "--exclude", "/dist", REPO.rstrip("/") + "/", self.dir + "/"], check=True)
        if self.kind == "cli":
            self._build_cli()
            return
        for mod, h in INJECT.items():
            if self.modules is not None and mod_to_path(mod) not in self.modules:
                continue
            hp = os.path.join(ROOT, "harness", self.hfile if (self.hfile and self.modules and len(self.modules) == 1) else h)
            mp = os.path.join(self.dir, mod)
            if os.path.exists(hp) and os.path.exists(mp):
                with open(mp, "a") as f:
                    f.write('\n#[cfg(kani)]\n#[path = "%s"]\npub(crate) mod verif_kani;\n' % hp)
                self.injected.append(mod)
            # harnesses that need the dependency models live in harness/dep and are only
            # injected into substitution overlays
            dp = os.path.join(ROOT, "harness", "dep", h)
            if self.kind.startswith("dep:") and os.path.exists(dp) and os.path.exists(mp):
                with open(mp, "a") as f:
                    f.write('\n#[cfg(kani)]\n#[path = "%s"]\npub(crate) mod verif_dep;\n' % dp)
        cargo = os.path.join(self.dir, "Cargo.toml")
        txt = open(cargo).read()
        # benches (criterion -> tinytemplate -> serde_json) are irrelevant to the checks and would
        # drag the real/model crates into test builds used for native replay
        txt = re.sub(r"\[dev-dependencies\.criterion\][^\[]*", "", txt)
        txt = re.sub(r"\[\[bench\]\][^\[]*", "", txt)
        # kani cfg is only known inside overlays; silence check-cfg noise
        if self.kind == "e1r":
            txt = txt.replace('[profile.dev]\n', '[profile.dev]\ndebug-assertions = false\n', 1)
            if "debug-assertions = false" not in txt:
                txt += '\n[profile.dev]\ndebug-assertions = false\n'
        if self.kind.startswith("dep:"):
            self.models = self.kind[4:].split(",")
            txt += "\n[patch.crates-io]\n"
            for m in self.models:
                txt += '%s = { path = "%s" }\n' % (m, os.path.join(ROOT, "models", m))
        open(cargo, "w").write(txt)
        # module swaps requested by a model (E2-yaml): models/<name>/swap/<relpath>
        for m in self.models:
            swap = os.path.join(ROOT, "models", m, "swap")
            if os.path.isdir(swap):
                subprocess.run(["rsync", "-a", swap + "/", self.dir + "/"], check=True)

    def _build_cli(self):
        src = os.path.join(ROOT, "cli-overlay")
        dst = self.dir + "-cli"
        shutil.copytree(src, dst)
        for f in ("main.rs", "bail.rs", "pipecheck.rs"):
            t = open(os.path.join(self.dir, "src", f)).read()
            t = re.sub(r"\bstd::", "mstd::", t)
            open(os.path.join(dst, "src", f), "w").write(t)
        with open(os.path.join(dst, "src", "main.rs"), "a") as f:
            f.write('\n#[cfg(kani)]\n#[path = "%s"]\nmod verif_kani;\n' % os.path.join(ROOT, "harness", "cli.rs"))
        with open(os.path.join(dst, "src", "pipecheck.rs"), "a") as f:
            f.write('\n#[cfg(kani)]\n#[path = "%s"]\nmod verif_kani;\n' % os.path.join(ROOT, "harness", "pipecheck.rs"))
        shutil.copy(os.path.join(self.dir, "Cargo.lock"), os.path.join(dst, "Cargo.lock"))
        self.repo_copy = self.dir
        self.dir = dst


# ---------------------------------------------------------------------------
# Kani driver
# ---------------------------------------------------------------------------

RE_RESULT = re.compile(r"^VERIFICATION:- (SUCCESSFUL|FAILED)", re.M)
RE_TIME = re.compile(r"^Verification Time: ([0-9.]+)s", re.M)
RE_SUMMARY = re.compile(r"^ \*\* (\d+) of (\d+) failed", re.M)
RE_COVER_SUMMARY = re.compile(r"^ \*\* (\d+) of (\d+) cover properties satisfied", re.M)
RE_CHECK = re.compile(r"^Check \d+: (.+)\n\s+- Status: (\w+)\n\s+- Description: \"(.*)\"\n\s+- Location: (.*)$", re.M)
RE_FAILED = re.compile(r"^Failed Checks: (.*)\n(?:\s*File: \"(.*?)\", line (\d+), in (.*))?", re.M)


def parse_kani_log(text):
    r = {"result": None, "time_s": None, "checks": None, "failed": None, "failed_checks": [],
         "covers": {}, "oom": False, "compile_error": False}
    m = RE_RESULT.search(text)
    if m:
        r["result"] = m.group(1)
    m = RE_TIME.search(text)
    if m:
        r["time_s"] = float(m.group(1))
    m = RE_SUMMARY.search(text)
    if m:
        r["failed"], r["checks"] = int(m.group(1)), int(m.group(2))
    for m in RE_CHECK.finditer(text):
        name, status, desc, loc = m.groups()
        if ".cover." in name or name.startswith("cover"):
            r["covers"][desc] = status
    for m in RE_FAILED.finditer(text):
        r["failed_checks"].append({"description": m.group(1), "file": m.group(2), "line": m.group(3), "in": m.group(4)})
    low = text.lower()
    if ("out of memory" in low or "std::bad_alloc" in low or "memory exhausted" in low or "Status: ERROR" in text
            or re.search(r"CBMC failed with status (6|9|11|134|137)", text)):
        r["oom"] = True
    r["no_panic"] = bool(re.search(r"VERIFICATION:- FAILED \(encountered no panics, but at least one was expected\)", text))
    if re.search(r"^error(\[E\d+\])?:", text, re.M) and r["result"] is None:
        r["compile_error"] = True
    return r


class Harness:
    def __init__(self, name, module, overlay="e1", desc="", bounds="", functions=(), covers=(),
                 flags=(), timeout=600, mem_gb=16, tier="quick", props=(), assumptions=(),
                 replay="playback", known=None, crate="lib", thorough_props=(), best_effort=False, fn=None, hfile=None):
        self.hfile = hfile          # harness file other than the module's default one (own overlay)
        self.name = name            # registry name (= function name of the #[kani::proof] unless fn is given)
        self.fn = fn or name        # function name of the #[kani::proof]
        self.module = module        # rust module path that contains `verif_kani` (e.g. "msgpack")
        self.overlay = overlay
        self.desc = desc
        self.bounds = bounds
        self.functions = list(functions)
        self.covers = list(covers)  # cover descriptions that must be SATISFIED
        self.flags = list(flags)
        self.timeout = timeout
        self.mem_gb = mem_gb
        self.tier = tier
        self.props = list(props)
        self.thorough_props = list(thorough_props)  # properties this query serves in the thorough tier only
        # best effort: a timeout / out-of-memory run of this query is recorded in the evidence as
        # "not completed" but does not make the check fail (a violation still does)
        self.best_effort = best_effort
        self.assumptions = list(assumptions)
        self.replay = replay
        self.known = known
        self.crate = crate

    @property
    def qualified(self):
        m = "verif_dep" if self.overlay.startswith("dep:") else "verif_kani"
        return "%s::%s::%s" % (self.module, m, self.fn) if self.module else "%s::%s" % (m, self.fn)


def kani_cmd(h, target_dir, extra=()):
    cmd = ["cargo", "kani", "-Z", "stubbing", "--target-dir", target_dir,
           "--harness", h.qualified, "--exact"]
    cmd += list(h.flags) + list(extra)
    return cmd


_procs = {}
_procs_lock = threading.Lock()
abort_all = threading.Event()


def kill_others(keep_pid=None):
    """Called once a violation is confirmed: the remaining queries cannot change the verdict."""
    abort_all.set()
    with _procs_lock:
        for pid, p in list(_procs.items()):
            if pid != keep_pid:
                try:
                    os.killpg(pid, signal.SIGKILL)
                except Exception:
                    pass


def run_kani(h, overlay, target_dir, logdir, extra=(), suffix="", abortable=True):
    os.makedirs(logdir, exist_ok=True)
    logf = os.path.join(logdir, h.name + suffix + ".log")
    cmd = kani_cmd(h, target_dir, extra)
    sh = "ulimit -v %d; exec timeout -k 10 %d %s" % (h.mem_gb * 1024 * 1024, h.timeout,
                                                  " ".join(_q(c) for c in cmd))
    t0 = time.time()
    if abortable and abort_all.is_set():
        return dict(parse_kani_log(""), harness=h.name, exit=None, wall_s=0, log=logf, timeout=False, skipped=True)
    with open(logf, "w") as f:
        p = subprocess.Popen(["bash", "-c", sh], cwd=overlay.dir, stdout=f, stderr=subprocess.STDOUT, env=ENV,
                             start_new_session=True)
        if abortable:
            with _procs_lock:
                _procs[p.pid] = p
        p.wait()
        with _procs_lock:
            _procs.pop(p.pid, None)
    wall = time.time() - t0
    text = open(logf, errors="replace").read()
    r = parse_kani_log(text)
    r.update({"harness": h.name, "exit": p.returncode, "wall_s": round(wall, 1), "log": logf,
              "timeout": p.returncode in (124, 137), "skipped": abortable and abort_all.is_set() and r["result"] is None})
    return r


def _q(s):
    return "'" + s.replace("'", "'\\''") + "'"


def classify(h, r):
    """-> (verdict, detail); verdict in discharged / violated / inconclusive"""
    if r.get("skipped"):
        return "skipped", "stopped: a violation was already confirmed by another query"
    if r["timeout"]:
        return "inconclusive", "timeout after %ds" % h.timeout
    if r["compile_error"]:
        return "inconclusive", "harness does not compile against this tree (see %s)" % r["log"]
    if r["result"] is None:
        if r["oom"]:
            return "inconclusive", "solver ran out of memory"
        return "inconclusive", "no verdict (exit %s)" % r["exit"]
    if r["result"] == "FAILED":
        fc = r["failed_checks"]
        real = [c for c in fc if "unwinding assertion" not in c["description"]]
        if r["oom"] and not real:
            return "inconclusive", "solver error / out of memory"
        if fc and not real:
            return "inconclusive", "unwinding bound too small: " + fc[0]["description"]
        if not fc:
            if r.get("no_panic"):
                return "violated", "should_panic harness ran to its end: no panic where the property demands one"
            return "inconclusive", "FAILED without a failed check (see log)"
        return "violated", "; ".join("%s (%s:%s)" % (c["description"], os.path.basename(c["file"] or "?"), c["line"]) for c in real[:4])
    # SUCCESSFUL
    missing = [c for c in h.covers if r["covers"].get(c) != "SATISFIED"]
    if missing:
        return "inconclusive", "vacuity witness not satisfied: %s" % missing
    return "discharged", "%s checks, %ss" % (r["checks"], r["time_s"])


# ---------------------------------------------------------------------------
# concrete playback (native replay of a Kani counterexample)
# ---------------------------------------------------------------------------

RE_PLAYBACK = re.compile(r"```\n(/// Test generated for harness.*?)```", re.S)


def extract_playback(text):
    """Kani prints one unit test per failed check AND per satisfied cover; keep the ones
    that belong to failed checks (everything that is not a `cover`)."""
    tests = [m.group(1) for m in RE_PLAYBACK.finditer(text)]
    fails = [t for t in tests if not re.search(r"/// Check for `cover`", t)]
    return fails


def concrete_vals(test_src):
    """list of byte lists, in kani::any() call order"""
    vals = []
    for m in re.finditer(r"vec!\[([0-9,\s]*)\]", test_src):
        body = m.group(1).strip()
        if body == "" and "vec![]" not in m.group(0):
            continue
        vals.append([int(x) for x in body.replace("\n", " ").split(",") if x.strip()])
    # the first match is the outer `vec![` only if formatted on one line; generated code puts
    # each inner vec on its own line, and the outer one spans lines (not matched by the regex
    # because it contains nested brackets).
    return vals


def playback(h, overlay, target_dir, logdir, replay_path):
    """Re-run the failing harness with concrete playback, write the generated unit test(s) to
    replay_path and execute them natively (dev + release). Returns (reproduced, info, vals)."""
    import copy
    hp = copy.copy(h)  # the trace-producing run needs more memory than the plain verdict
    hp.mem_gb = max(h.mem_gb * 2, 24)
    hp.timeout = max(h.timeout, 900)
    r = run_kani(hp, overlay, target_dir, logdir,
                 extra=["-Z", "concrete-playback", "--concrete-playback=print"], suffix=".playback", abortable=False)
    text = open(r["log"], errors="replace").read()
    tests = extract_playback(text)
    if not tests:
        return None, "kani produced no concrete playback test", None
    tests = tests[:3]
    test = "\n".join(tests)
    os.makedirs(os.path.dirname(replay_path), exist_ok=True)
    header = ("// Native replay of a Kani counterexample (generated by `cargo kani -Z concrete-playback`).\n"
              "// harness: %s  (module %s, overlay %s)\n// tree: %s\n"
              "// The test lives inside the harness module injected into the scratch overlay; it is re-run with\n"
              "// `cargo kani playback -Z concrete-playback --lib` in the dev and release profiles.\n"
              % (h.name, h.module, h.overlay, repo_fingerprint()))
    open(replay_path, "w").write(header + test)
    vals = concrete_vals(tests[0])
    if h.replay not in ("playback", "stream"):
        return None, "playback not applicable", vals
    hpath = harness_file_for(h)
    modfile = None
    for mod in INJECT:
        if mod_to_path(mod) == h.module:
            modfile = os.path.join(overlay.dir, mod)
    if h.overlay == "cli":
        modfile = os.path.join(overlay.dir, "src", "main.rs" if h.module == "" else h.module.split("::")[0] + ".rs")
    if modfile is None or hpath is None:
        return None, "cannot locate module file for playback", vals
    inj = os.path.join(overlay.dir, "verif_playback_%s.rs" % h.name)
    open(inj, "w").write(test)
    # the generated test calls the harness by name, so it has to live inside verif_kani:
    # re-point the injected module at a wrapper that includes both.
    wrapper = os.path.join(overlay.dir, "verif_wrap_%s.rs" % h.name)
    open(wrapper, "w").write('include!("%s");\n#[cfg(test)]\nmod verif_playback {\n use super::*;\n include!("%s");\n}\n' % (hpath, inj))
    src = open(modfile).read()
    open(modfile, "w").write(src.replace('#[path = "%s"]' % hpath, '#[path = "%s"]' % wrapper))
    results = {}
    try:
        for profile in ("dev",):  # `cargo kani playback` has no --release; the dev profile is the one Kani models
            cmd = ["cargo", "kani", "playback", "-Z", "concrete-playback"]
            cmd += ["--bin", "xt"] if h.crate == "bin" else ["--lib"]
            if profile == "release":
                cmd += ["--release"]
            cmd += ["--", "kani_concrete_playback_" + h.fn]
            env = dict(ENV)
            env["CARGO_TARGET_DIR"] = target_dir + "-pb"
            lf = os.path.join(logdir, "%s.native-%s.log" % (h.name, profile))
            with open(lf, "w") as f:
                subprocess.run(cmd, cwd=overlay.dir, stdout=f, stderr=subprocess.STDOUT, env=env, timeout=1800)
            out = open(lf, errors="replace").read()
            if re.search(r"test result: FAILED|panicked at", out):
                m = re.search(r"panicked at [^\n]*\n([^\n]*)", out)
                results[profile] = "reproduced" + (" (%s)" % m.group(1).strip()[:160] if m else "")
            elif re.search(r"test result: ok\. [1-9]", out):
                results[profile] = "not reproduced"
            else:
                results[profile] = "error (see %s)" % lf
    finally:
        open(modfile, "w").write(src)
    rep = any(v.startswith("reproduced") for v in results.values())
    err = all(v.startswith("error") for v in results.values())
    return (None if err else rep), results, vals


def mod_to_path(modfile):
    p = modfile[len("src/"):-len(".rs")]
    if p == "lib":
        return ""
    return p.replace("/", "::")


def harness_file_for(h):
    if getattr(h, "hfile", None):
        return os.path.join(ROOT, "harness", h.hfile)
    for mod, hf in INJECT.items():
        if mod_to_path(mod) == h.module:
            if h.overlay.startswith("dep:"):
                return os.path.join(ROOT, "harness", "dep", hf)
            return os.path.join(ROOT, "harness", hf)
    if h.overlay == "cli":
        return os.path.join(ROOT, "harness", "cli.rs" if h.module == "" else h.module + ".rs")
    return None


# ---------------------------------------------------------------------------
# scheduling
# ---------------------------------------------------------------------------

class Pool:
    """Run jobs in parallel subject to a total memory budget (GB)."""

    def __init__(self, budget_gb=52, max_jobs=8):
        self.budget = budget_gb
        self.max_jobs = max_jobs
        self.used = 0
        self.running = 0
        self.cv = threading.Condition()

    def run_all(self, jobs):
        """jobs: list of (mem_gb, callable) -> list of results in order"""
        results = [None] * len(jobs)
        threads = []

        def worker(i, mem, fn):
            try:
                results[i] = fn()
            except Exception as e:  # noqa
                results[i] = e
            finally:
                with self.cv:
                    self.used -= mem
                    self.running -= 1
                    self.cv.notify_all()

        order = sorted(range(len(jobs)), key=lambda i: -jobs[i][0])
        for i in order:
            mem, fn = jobs[i]
            mem = min(mem, self.budget)
            with self.cv:
                while self.used + mem > self.budget or self.running >= self.max_jobs:
                    self.cv.wait()
                self.used += mem
                self.running += 1
            t = threading.Thread(target=worker, args=(i, mem, fn))
            t.start()
            threads.append(t)
        for t in threads:
            t.join()
        return results


def seed_target_dir(kind, dst):
    """Copy the pre-built dependency cache (setup_cmd) for this overlay kind, if any."""
    src = os.path.join(CACHE, "target-" + re.sub(r"[^a-z0-9]+", "-", kind))
    if os.path.isdir(src) and not os.path.exists(dst):
        subprocess.run(["cp", "-a", src, dst], check=False)
