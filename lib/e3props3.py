"""E3 query K20: error attribution of the streaming transcoder (src/transcode/stream.rs), as an inductive /
assume-guarantee argument over the library crate's MIR - one step per function, any nesting depth.

Every error value is either REAL (produced by the third-party serializer / deserializer itself) or SYNTHETIC (built by
`Error::custom(TRANSLATION_FAILED)` only to unwind through the other side).  Each transcoder object carries a `State`
(parent, error, source); its three `Cell`s are modelled as heap cells with identity, so that interior mutation through
shared references is exact.

Interface invariants (what a failing call leaves behind):
  Inv_V(e, st)  a visitor method / seed returned Err(e):   (st.source = Ser and st.error = Some(x), x REAL serializer error)
                                                        or (st.source = De  and e REAL deserializer error)
  Inv_F(s, st)  Forwarder::serialize returned Err(s):      (st.source = Ser and s REAL serializer error)
                                                        or (st.source = De  and st.error = Some(d), d REAL deserializer error)
Steps (each checks its post-condition on every path, assuming the invariant for the calls it makes into the
third-party side, whose only documented obligations are: a Deserializer calls at most one visit_* method per
deserialize_any and passes a visitor's / seed's error through unchanged; a collection serializer serialises the
element it is handed at most once and passes the element's error through unchanged):
  T  transcode            Inv_V  =>  Error::Ser(x, _) with x REAL  |  Error::De(e) with e REAL;  no unwrap() on None
  V  17 scalar visit_* + forward_scalar, visit_seq, visit_map   =>  Inv_V
  S  SeqSeed / KeySeed / ValueSeed::deserialize (= Forwarder::new + serialize_with_seed + closure)   Inv_F  =>  Inv_V
  F  Forwarder::serialize   Inv_V  =>  Inv_F
and every take_parent() finds its parent (each seed / forwarder / visitor is used once).
"""
import os
import re

import z3

import xtmir as X
from xtmir import Inconclusive, asint, disc, fresh, proj
from e3props import closure_by_type
from e3props2 import struct_fields

BOOL = z3.BoolSort()
real_ser = z3.Function("real_ser", X.V, BOOL)
real_de = z3.Function("real_de", X.V, BOOL)


class Heap:
    """path-local store of Cell contents, keyed by the cell's term (canonicalised with the solver)"""

    @staticmethod
    def cells(p):
        return p.ghost.get("cells", ())

    @staticmethod
    def lookup(ex, p, term, create=True):
        cs = Heap.cells(p)
        for i, (k, v) in enumerate(cs):
            if k is term or k.eq(term):
                return i
        for i, (k, v) in enumerate(cs):
            if ex.valid(p, k == term)[0]:
                return i
        if not create:
            return None
        v = fresh("cell0")
        p.ghost = dict(p.ghost)
        p.ghost["cells"] = tuple(cs) + ((term, v),)
        return len(cs)

    @staticmethod
    def get(ex, p, term):
        i = Heap.lookup(ex, p, term)
        return Heap.cells(p)[i][1]

    @staticmethod
    def set(ex, p, term, val):
        i = Heap.lookup(ex, p, term)
        cs = list(Heap.cells(p))
        cs[i] = (cs[i][0], val)
        p.ghost = dict(p.ghost)
        p.ghost["cells"] = tuple(cs)


class K20:
    Q = "K20.attribution"

    def __init__(self, mir, rep, srcdir):
        self.mir, self.rep = mir, rep
        sf = struct_fields(os.path.join(srcdir, "src/transcode/stream.rs"), "State")
        if sorted(sf) != ["error", "parent", "source"]:
            raise Inconclusive("State fields: %r" % sf)
        self.PARENT, self.ERROR, self.SOURCE = ("f%d" % sf.index(n) for n in ("parent", "error", "source"))
        if "ErrorSource::De" not in X.VARIANTS or "ErrorSource::Ser" not in X.VARIANTS:
            raise Inconclusive("enum ErrorSource not loaded")
        self.DE, self.SER = X.VARIANTS["ErrorSource::De"], X.VARIANTS["ErrorSource::Ser"]
        self.contract = None   # per-step model of the third-party calls
        self.panics = []
        self.steps = {}

    # ---- state helpers
    def src(self, ex, p, st):
        return Heap.get(ex, p, proj(st, self.SOURCE))

    def err(self, ex, p, st):
        return Heap.get(ex, p, proj(st, self.ERROR))

    def fresh_state(self, ex, p, st, parent):
        some = fresh("someparent")
        p.pc += [disc(some) == 1, proj(some, "Some.0") == parent]
        none = fresh("noerr")
        p.pc.append(disc(none) == 0)
        de = fresh("srcde")
        p.pc.append(disc(de) == self.DE)
        Heap.set(ex, p, proj(st, self.PARENT), some)
        Heap.set(ex, p, proj(st, self.ERROR), none)
        Heap.set(ex, p, proj(st, self.SOURCE), de)

    def havoc_state(self, ex, p, st):
        s, e = fresh("src'"), fresh("err'")
        p.pc.append(z3.Or(disc(s) == self.DE, disc(s) == self.SER))
        p.pc.append(z3.Or(disc(e) == 0, disc(e) == 1))
        Heap.set(ex, p, proj(st, self.SOURCE), s)
        Heap.set(ex, p, proj(st, self.ERROR), e)
        return s, e

    def inv_v(self, s, e, ret_err):
        return z3.Or(z3.And(disc(s) == self.SER, disc(e) == 1, real_ser(proj(e, "Some.0"))),
                     z3.And(disc(s) == self.DE, real_de(ret_err)))

    def inv_f(self, s, e, ret_err):
        return z3.Or(z3.And(disc(s) == self.SER, real_ser(ret_err)),
                     z3.And(disc(s) == self.DE, disc(e) == 1, real_de(proj(e, "Some.0"))))

    # ---- function resolution (many functions are called `new`, `deserialize`, ...)
    def resolve(self, call):
        table = [
            (r"^State::<.*>::new$", r"::new$", "-> State<P, E>"),
            (r"^State::<.*>::take_parent$", r"::take_parent$", "_1: &State<P, E>"),
            (r"^State::<.*>::capture_error$", r"::capture_error$", "_1: &State<P, E>"),
            (r"^State::<.*>::capture_child_error", r"::capture_child_error$", "_1: &State<P, E>"),
            (r"^State::<.*>::error_source$", r"::error_source$", "_1: &State<P, E>"),
            (r"^State::<.*>::into_error$", r"::into_error$", "_1: State<P, E>"),
            (r"Visitor::<.*>::new$", r"::new$", "-> stream::Visitor<S>"),
            (r"Visitor::<.*>::forward_scalar::<", r"::forward_scalar$", "stream::Visitor<S>"),
            (r"^Forwarder::<.*>::new$", r"::new$", "-> Forwarder<'_, D>"),
            (r"^Forwarder::<.*>::serialize_with_seed::<", r"::serialize_with_seed$", "Forwarder<'_, D>"),
            (r"^SeqSeed::<.*>::new$", r"::new$", "-> SeqSeed<'_, S>"),
            (r"^KeySeed::<.*>::new$", r"::new$", "-> KeySeed<'_, S>"),
            (r"^ValueSeed::<.*>::new$", r"::new$", "-> ValueSeed<'_, S>"),
        ]
        for pat, name_re, sig in table:
            if re.search(pat, call):
                c = [f for n, f in self.mir.functions.items() if re.search(name_re, n) and sig in f.sig and "stream" in n]
                if len(c) != 1:
                    raise Inconclusive("K20: %d candidates for %s" % (len(c), call))
                return c[0]
        return None

    # ---- the handler shared by all steps
    def handler(self, ex, p, name, argv, dst, dst_type, cur_fn):
        if name == "drop":
            return None
        cm = re.findall(r"\{closure@[^}]*\}", name)
        if cm and "call_once" not in name:
            p.ghost = dict(p.ghost)
            p.ghost["last_closure"] = cm[-1]
        if re.search(r"^Cell::<.*>::new$", name):
            c = fresh("cell")
            p.ghost = dict(p.ghost)
            p.ghost["cells"] = tuple(Heap.cells(p)) + ((c, argv[0]),)
            return c
        if re.search(r"^Cell::<.*>::set$", name):
            Heap.set(ex, p, argv[0], argv[1])
            return fresh("unit")
        if re.search(r"^Cell::<.*>::get$|^Cell::<.*>::into_inner$", name):
            return Heap.get(ex, p, argv[0])
        if re.search(r"^Cell::<.*>::replace$", name):
            old = Heap.get(ex, p, argv[0])
            Heap.set(ex, p, argv[0], argv[1])
            return old
        if re.search(r"Option::<.*>::(expect|unwrap)$", name):
            q = p.clone()
            q.pc.append(disc(argv[0]) != 1)
            if ex.feasible(q):
                self.panics.append((cur_fn.name, name))
            p.pc.append(disc(argv[0]) == 1)
            if not ex.feasible(p):
                raise X.Done("dead")
            return proj(argv[0], "Some.0")
        if re.search(r"as serde::ser::Error>::custom::<", name):
            s = fresh("synthetic_ser")
            p.pc.append(z3.Not(real_ser(s)))
            p.trace.append(("custom_ser", argv[0]))
            return s
        if re.search(r"as serde::de::Error>::custom::<", name):
            s = fresh("synthetic_de")
            p.pc.append(z3.Not(real_de(s)))
            p.trace.append(("custom_de", argv[0]))
            return s
        if re.search(r"FnOnce<.*>>::call_once$", name):
            ct = p.ghost.get("last_closure") or getattr(argv[0], "mir_const", None)
            if not ct:
                raise Inconclusive("K20: closure type of a call_once unknown in %s" % cur_fn.name)
            ctm = re.search(r"\{closure@[^}]*\}", ct)
            body = closure_by_type(self.mir, ctm.group(0))
            n = len(body.args) - 1
            return ("inline", body, [argv[0]] + [proj(argv[1], "f%d" % i) for i in range(n)])
        f = self.resolve(name)
        if f is not None:
            return ("inline", f, argv)
        if self.contract:
            r = self.contract(ex, p, name, argv, cur_fn)
            if r is not None:
                return r
        if re.search(r"size_hint$", name):
            h = fresh("hint")
            p.trace.append(("hint", h))
            return h
        if re.search(r"^stream::|^<.* as serde::|^Forwarder|^State::|Seed::", name):
            raise Inconclusive("K20: call %s in %s has no model" % (name[:90], cur_fn.name))
        return None

    def result(self, p, ok_extra=None):
        r = fresh("result")
        p.pc.append(z3.Or(disc(r) == 0, disc(r) == 1))
        return r

    def new_exec(self):
        ex = X.Exec(self.mir, self.handler)
        self.panics = []
        return ex

    def bad(self, msg, **w):
        w["kind"] = "attribution"
        self.rep.bad(self.Q, msg, w)

    def finish_step(self, ex, label, seen, need):
        self.rep.absorb(ex)
        for fn, call in self.panics:
            self.bad("%s: no path panics (take_parent finds its parent, unwrap() finds the captured error)" % label, at=fn, call=call[:60])
        missing = [n for n in need if n not in seen]
        if missing and not any(v[0] == self.Q for v in self.rep.violations):
            raise Inconclusive("K20 vacuity in step %s: outcomes %r not reached (saw %r)" % (label, missing, sorted(seen)))
        self.steps[label] = sorted(seen)

    # ---- contracts of the third-party side
    def ser_call(self, p, tag):
        """a serializer method that does not get a Forwarder: Ok(_) or Err(x) with x REAL"""
        r = self.result(p)
        p.pc.append(z3.Implies(disc(r) == 1, real_ser(proj(r, "Err.0"))))
        p.trace.append((tag, r))
        return r

    # ---- step F: Forwarder::serialize
    def step_forwarder(self):
        fn = [f for n, f in self.mir.functions.items() if n.endswith("::serialize") and "_1: &Forwarder<'_, D>" in f.sig]
        if len(fn) != 1:
            raise Inconclusive("Forwarder::serialize not found")
        ex = self.new_exec()
        fwd, ser, de0 = fresh("forwarder"), fresh("ser"), fresh("de")
        st = proj(fwd, "f0")
        seen = set()

        def contract(ex, p, name, argv, cur_fn):
            if re.search(r"Deserializer<'_>>::deserialize_any::<&mut stream::Visitor<S>>$", name):
                vst = proj(argv[1], "f0")
                r = self.result(p)
                s, e = self.havoc_state(ex, p, vst)
                # at most one visit_* call: Ok leaves nothing to report; Err(e) leaves Inv_V behind
                p.pc.append(z3.Implies(disc(r) == 1, self.inv_v(s, e, proj(r, "Err.0"))))
                p.trace.append(("deserialize_any", argv[0], r))
                return r
            return None
        self.contract = contract
        p0 = X.Path()
        self.fresh_state(ex, p0, st, de0)

        def fin(p, how, value):
            if how == "dead":
                return
            da = [t for t in p.trace if t[0] == "deserialize_any"]
            if how != "return" or len(da) != 1 or not ex.valid(p, da[0][1] == de0)[0]:
                self.bad("Forwarder::serialize drives its own deserializer exactly once", end=how)
                return
            r = da[0][2]
            if ex.valid(p, disc(r) == 0)[0]:
                seen.add("ok")
                if not ex.valid(p, z3.And(disc(value) == 0, proj(value, "Ok.0") == proj(r, "Ok.0")))[0]:
                    self.bad("Forwarder::serialize hands a successful element on unchanged")
                return
            seen.add("err")
            s, e = self.src(ex, p, st), self.err(ex, p, st)
            ok, m = ex.valid(p, z3.And(disc(value) == 1, self.inv_f(s, e, proj(value, "Err.0"))))
            if not ok:
                self.bad("Forwarder::serialize: when the element's deserializer fails, the forwarder records WHICH side failed as the child visitor recorded it "
                         "(a visitor that only holds the synthetic 'translation failed' error is still a deserializer failure) together with the deserializer's error, "
                         "and returns the real serializer error if there is one", step="F")
            if not ex.valid(p, z3.And(disc(e) == 1, proj(e, "Some.0") == proj(r, "Err.0")))[0]:
                self.bad("Forwarder::serialize keeps the deserializer's error for the seed to return", step="F")
        ex.run(fn[0], p0, [fwd, ser], fin)
        self.finish_step(ex, "F", seen, ["ok", "err"])

    # ---- step S: the three seeds
    def step_seeds(self):
        for seed, method in (("SeqSeed", "serialize_element"), ("KeySeed", "serialize_key"), ("ValueSeed", "serialize_value")):
            fn = [f for n, f in self.mir.functions.items() if n.endswith("::deserialize") and ("_1: &mut %s<'_, S>" % seed) in f.sig]
            if len(fn) != 1:
                raise Inconclusive("%s::deserialize not found" % seed)
            ex = self.new_exec()
            sd, ser, de0 = fresh("seed"), fresh("collser"), fresh("de")
            st = proj(sd, "f0")
            seen = set()

            def contract(ex, p, name, argv, cur_fn, method=method):
                m = re.search(r"as Serialize(Seq|Map)>::(serialize_element|serialize_key|serialize_value)::<Forwarder<'_, D>>$", name)
                if m:
                    if m.group(2) != method:
                        self.bad("%s forwards its element with %s" % (seed, method), got=m.group(2))
                    fst = proj(argv[1], "f0")
                    r = self.result(p)
                    none = fresh("noerr")
                    p.pc.append(disc(none) == 0)
                    forks = []
                    # (A/C) the element was serialised fine or not at all: Ok, or the collection serializer's own REAL error
                    forks.append((z3.And(z3.Or(disc(r) == 0, z3.And(disc(r) == 1, real_ser(proj(r, "Err.0"))))), r, [("element", argv[0], argv[1], r, "own")], None))
                    # (B) Forwarder::serialize failed and its error is passed through: Inv_F holds for the forwarder
                    s, e = fresh("fsrc"), fresh("ferr")
                    forks.append((z3.And(disc(r) == 1, z3.Or(disc(s) == self.DE, disc(s) == self.SER), z3.Or(disc(e) == 0, disc(e) == 1),
                                         self.inv_f(s, e, proj(r, "Err.0"))), r, [("element", argv[0], argv[1], r, "passed")], (fst, s, e)))
                    out = []
                    for cond, val, evs, upd in forks:
                        q = p.clone()
                        q.pc.append(cond)
                        if not ex.feasible(q):
                            continue
                        gh = None
                        if upd:
                            Heap.set(ex, q, proj(upd[0], self.SOURCE), upd[1])
                            Heap.set(ex, q, proj(upd[0], self.ERROR), upd[2])
                            gh = {"cells": q.ghost["cells"]}
                        out.append((cond, val, evs, gh))
                    return out
                return None
            self.contract = contract
            p0 = X.Path()
            self.fresh_state(ex, p0, st, ser)

            def fin(p, how, value, seed=seed):
                if how == "dead":
                    return
                el = [t for t in p.trace if t[0] == "element"]
                if how != "return" or len(el) != 1 or not ex.valid(p, el[0][1] == ser)[0]:
                    self.bad("%s::deserialize hands exactly one element to its collection serializer" % seed, end=how)
                    return
                r = el[0][3]
                if ex.valid(p, disc(r) == 0)[0]:
                    seen.add("ok")
                    if not ex.valid(p, disc(value) == 0)[0]:
                        self.bad("%s::deserialize reports success when the element was written" % seed)
                    return
                seen.add("err:" + el[0][4])
                s, e = self.src(ex, p, st), self.err(ex, p, st)
                if not ex.valid(p, z3.And(disc(value) == 1, self.inv_v(s, e, proj(value, "Err.0"))))[0]:
                    self.bad("%s::deserialize: when writing the element fails, the seed records a serializer failure with the serializer's own error unless the forwarder "
                             "saw the deserializer fail (then it keeps the forwarder's verdict and returns the deserializer's error); a collection serializer failing "
                             "on its own - the forwarder captured nothing - is a serializer failure" % seed, step="S", case=el[0][4])
                if not ex.valid(p, z3.And(disc(e) == 1, proj(e, "Some.0") == proj(r, "Err.0")))[0]:
                    self.bad("%s::deserialize keeps the serializer's error for the visitor" % seed, step="S")
            ex.run(fn[0], p0, [sd, de0], fin)
            self.finish_step(ex, "S." + seed, seen, ["ok", "err:own", "err:passed"])

    # ---- step V: visitor methods
    def step_scalars(self):
        names = ["unit", "bool", "i8", "i16", "i32", "i64", "i128", "u8", "u16", "u32", "u64", "u128", "f32", "f64", "char", "str", "bytes"]
        total = set()
        for nm in names:
            fn = [f for n, f in self.mir.functions.items() if n.endswith("::visit_" + nm) and "_1: &mut stream::Visitor<S>" in f.sig]
            if len(fn) != 1:
                raise Inconclusive("visit_%s not found" % nm)
            ex = self.new_exec()
            vis, ser, val = fresh("visitor"), fresh("ser"), fresh("v")
            st = proj(vis, "f0")
            seen = set()

            def contract(ex, p, name, argv, cur_fn, nm=nm):
                m = re.search(r"as serde::Serializer>::serialize_(\w+)$", name)
                if m:
                    r = self.ser_call(p, "serialize")
                    p.trace.append(("method", m.group(1), argv))
                    return r
                return None
            self.contract = contract
            p0 = X.Path()
            self.fresh_state(ex, p0, st, ser)

            def fin(p, how, value, nm=nm):
                if how == "dead":
                    return
                sc = [t for t in p.trace if t[0] == "serialize"]
                me = [t for t in p.trace if t[0] == "method"]
                if how != "return" or len(sc) != 1 or len(me) != 1 or me[0][1] != nm or not ex.valid(p, me[0][2][0] == ser)[0]:
                    self.bad("visit_%s forwards the scalar to serialize_%s of its own serializer, once" % (nm, nm), got=[t[1] for t in me])
                    return
                if nm != "unit" and not ex.valid(p, me[0][2][1] == val)[0]:
                    self.bad("visit_%s forwards the value it was given" % nm)
                r = sc[0][1]
                if ex.valid(p, disc(r) == 0)[0]:
                    seen.add("ok")
                    if not ex.valid(p, z3.And(disc(value) == 0, proj(value, "Ok.0") == proj(r, "Ok.0")))[0]:
                        self.bad("visit_%s returns the serializer's Ok value" % nm)
                    return
                seen.add("err")
                s, e = self.src(ex, p, st), self.err(ex, p, st)
                if not ex.valid(p, z3.And(disc(value) == 1, self.inv_v(s, e, proj(value, "Err.0")), proj(e, "Some.0") == proj(r, "Err.0")))[0]:
                    self.bad("a scalar the serializer refuses is recorded as a serializer failure with the serializer's own error (visit_%s)" % nm, step="V")
            ex.run(fn[0], p0, [vis] + ([val] if nm != "unit" else []), fin)
            self.finish_step(ex, "V.visit_" + nm, seen, ["ok", "err"])
            total |= seen

    def step_collections(self, max_items=2):
        for coll, begin, nexts in (("seq", "serialize_seq", ["next_element_seed"]), ("map", "serialize_map", ["next_key_seed", "next_value_seed"])):
            fn = [f for n, f in self.mir.functions.items() if n.endswith("::visit_" + coll) and "_1: &mut stream::Visitor<S>" in f.sig]
            if len(fn) != 1:
                raise Inconclusive("visit_%s not found" % coll)
            ex = self.new_exec()
            vis, ser, acc = fresh("visitor"), fresh("ser"), fresh("access")
            st = proj(vis, "f0")
            seen = set()

            def contract(ex, p, name, argv, cur_fn, begin=begin, nexts=nexts):
                if re.search(r"as serde::Serializer>::%s$" % begin, name):
                    r = self.ser_call(p, "begin")
                    p.trace.append(("begin_args", list(argv)))
                    return r
                if re.search(r"as Serialize(Seq|Map)>::end$", name):
                    r = self.ser_call(p, "end")
                    p.trace.append(("end_args", list(argv)))
                    return r
                m = re.search(r"as (SeqAccess|MapAccess)<'_>>::(next_element_seed|next_key_seed|next_value_seed)::<&mut (Seq|Key|Value)Seed<'_, ", name)
                if m:
                    sst = proj(argv[1], "f0")
                    n = len([t for t in p.trace if t[0] == "next"])
                    par = Heap.get(ex, p, proj(sst, self.PARENT))
                    p.trace.append(("seed_parent", m.group(2), par, argv[0]))
                    r = self.result(p)
                    s, e = self.havoc_state(ex, p, sst)
                    # Err(d): the seed failed (Inv_V for the seed, d passed through) or the deserializer failed by itself (seed untouched: source De, d REAL)
                    p.pc.append(z3.Implies(disc(r) == 1, self.inv_v(s, e, proj(r, "Err.0"))))
                    if m.group(2) != "next_value_seed":
                        p.pc.append(z3.Implies(disc(r) == 0, z3.Or(disc(proj(r, "Ok.0")) == 0, disc(proj(r, "Ok.0")) == 1)))
                        if n >= max_items * len(nexts):
                            p.pc.append(z3.Implies(disc(r) == 0, disc(proj(r, "Ok.0")) == 0))   # bound: the collection ends
                    p.trace.append(("next", m.group(2), sst, r, s, e))
                    return r
                return None
            self.contract = contract
            p0 = X.Path()
            self.fresh_state(ex, p0, st, ser)

            def fin(p, how, value, coll=coll):
                if how == "dead":
                    return
                if how != "return":
                    self.bad("visit_%s returns" % coll, end=how)
                    return
                s, e = self.src(ex, p, st), self.err(ex, p, st)
                hints = [t for t in p.trace if t[0] == "hint"]
                ba = [t for t in p.trace if t[0] == "begin_args"]
                if len(ba) != 1 or len(hints) != 1 or not ex.valid(p, z3.And(ba[0][1][0] == ser, ba[0][1][1] == hints[0][1]))[0]:
                    self.bad("visit_%s opens the collection on its own serializer with exactly the length the deserializer announced (a length-prefixed target writes that count into its header)" % coll, step="V")
                begins = [t for t in p.trace if t[0] == "begin"]
                sp = [t for t in p.trace if t[0] == "seed_parent"]
                if begins and sp:
                    coll_ser = proj(begins[0][1], "Ok.0")
                    for t in sp:
                        if not ex.valid(p, z3.And(disc(t[2]) == 1, proj(t[2], "Some.0") == coll_ser, t[3] == acc))[0]:
                            self.bad("visit_%s pulls every element from the access object it was given, through a fresh seed that writes to the collection serializer opened for THIS collection" % coll, step="V")
                            break
                    order = [t[1] for t in sp]
                    want = (["next_element_seed"] * len(order)) if coll == "seq" else (["next_key_seed", "next_value_seed"] * len(order))[:len(order)]
                    if order != want:
                        self.bad("visit_%s alternates key and value pulls (one element pull per step for sequences)" % coll, step="V", order=order)
                ea = [t for t in p.trace if t[0] == "end_args"]
                if ea and begins and not ex.valid(p, ea[0][1][0] == proj(begins[0][1], "Ok.0"))[0]:
                    self.bad("visit_%s closes the collection serializer it opened" % coll, step="V")
                if ex.valid(p, disc(value) == 0)[0]:
                    seen.add("ok")
                    nxs = [t for t in p.trace if t[0] == "next"]
                    if not nxs or not ex.valid(p, z3.And(disc(nxs[-1][3]) == 0, disc(proj(nxs[-1][3], "Ok.0")) == 0))[0] or nxs[-1][1] == "next_value_seed":
                        self.bad("visit_%s ends the collection only when the deserializer reports its end" % coll, step="V")
                    ends = [t for t in p.trace if t[0] == "end"]
                    if len(ends) != 1 or not ex.valid(p, z3.And(disc(ends[0][1]) == 0, proj(value, "Ok.0") == proj(ends[0][1], "Ok.0")))[0]:
                        self.bad("visit_%s succeeds only with the Ok value of the collection serializer's end()" % coll)
                    return
                nx = [t for t in p.trace if t[0] == "next"]
                failed_next = [t for t in nx if ex.valid(p, disc(t[3]) == 1)[0]]
                seen.add("err:element" if failed_next else "err:serializer")
                if not ex.valid(p, z3.And(disc(value) == 1, self.inv_v(s, e, proj(value, "Err.0"))))[0]:
                    self.bad("visit_%s: a failing element leaves the seed's verdict (which side, which serializer error) in the visitor and the deserializer's error is returned as is; "
                             "a failing serialize_%s / end() is a serializer failure with the serializer's own error" % (coll, coll), step="V", case="element" if failed_next else "serializer")
                if failed_next and not ex.valid(p, proj(value, "Err.0") == proj(failed_next[-1][3], "Err.0"))[0]:
                    self.bad("visit_%s returns the deserializer's error of the failing element unchanged" % coll, step="V")
                if failed_next and not ex.valid(p, z3.And(s == failed_next[-1][4], e == failed_next[-1][5]))[0]:
                    self.bad("visit_%s copies the failing seed's source and error into its own state" % coll, step="V")
            ex.run(fn[0], p0, [vis, acc], fin)
            self.finish_step(ex, "V.visit_" + coll, seen, ["ok", "err:element", "err:serializer"])

    # ---- step T: transcode
    def step_top(self):
        fn = [f for n, f in self.mir.functions.items() if re.search(r"(^|::)stream::transcode$", n)]
        if len(fn) != 1:
            raise Inconclusive("stream::transcode not found")
        ex = self.new_exec()
        ser, de0 = fresh("ser"), fresh("de")
        seen = set()

        def contract(ex, p, name, argv, cur_fn):
            if re.search(r"Deserializer<'_>>::deserialize_any::<&mut stream::Visitor<S>>$", name):
                vst = proj(argv[1], "f0")
                r = self.result(p)
                s, e = self.havoc_state(ex, p, vst)
                p.pc.append(z3.Implies(disc(r) == 1, self.inv_v(s, e, proj(r, "Err.0"))))
                p.trace.append(("deserialize_any", argv[0], r, s, e))
                return r
            return None
        self.contract = contract

        def fin(p, how, value):
            if how == "dead":
                return
            da = [t for t in p.trace if t[0] == "deserialize_any"]
            if how != "return" or len(da) != 1 or not ex.valid(p, da[0][1] == de0)[0]:
                self.bad("transcode drives the given deserializer exactly once", end=how)
                return
            r, s, e = da[0][2], da[0][3], da[0][4]
            if ex.valid(p, disc(r) == 0)[0]:
                seen.add("ok")
                if not ex.valid(p, z3.And(disc(value) == 0, proj(value, "Ok.0") == proj(r, "Ok.0")))[0]:
                    self.bad("transcode returns the serializer's Ok value")
                return
            SER, DE = X.VARIANTS.get("Error::Ser"), X.VARIANTS.get("Error::De")
            if SER is None or DE is None:
                raise Inconclusive("enum stream::Error not loaded")
            ev = proj(value, "Err.0")
            if ex.valid(p, disc(s) == self.SER)[0]:
                seen.add("ser")
                if not ex.valid(p, z3.And(disc(value) == 1, disc(ev) == SER, real_ser(proj(ev, "Ser.0")), proj(ev, "Ser.0") == proj(e, "Some.0"), proj(ev, "Ser.1") == proj(r, "Err.0")))[0]:
                    self.bad("a serializer failure is returned as Error::Ser(<the serializer's own error>, <the deserializer's error>)", step="T")
            elif ex.valid(p, disc(s) == self.DE)[0]:
                seen.add("de")
                if not ex.valid(p, z3.And(disc(value) == 1, disc(ev) == DE, real_de(proj(ev, "De.0")), proj(ev, "De.0") == proj(r, "Err.0")))[0]:
                    self.bad("a deserializer failure is returned as Error::De(<the deserializer's own error>), never with the synthetic 'translation failed' text", step="T")
            else:
                self.bad("transcode decides on the visitor's recorded error source", step="T")
        ex.run(fn[0], X.Path(), [ser, de0], fin)
        self.finish_step(ex, "T", seen, ["ok", "ser", "de"])


def k20_attribution(mir, rep, srcdir):
    X.load_enums(os.path.join(srcdir, "src/transcode/stream.rs"))
    k = K20(mir, rep, srcdir)
    for step in (k.step_top, k.step_forwarder, k.step_seeds, k.step_scalars, k.step_collections):
        try:
            step()
        except Inconclusive:
            if not rep.violations:
                raise
    rep.witnesses.append("attribution steps: %s" % {a: b for a, b in k.steps.items() if not a.startswith("V.visit_") or a in ("V.visit_seq", "V.visit_map", "V.visit_bool")})
    rep.samples.append({"query": K20.Q, "claim": "inductive attribution invariant: transcode / 19 visitor methods / 3 seeds / Forwarder::serialize each re-establish "
                        "'source = Ser with the real serializer error captured, or source = De with the real deserializer error returned' from the same invariant of the calls they make; "
                        "holds at every nesting depth", "steps": sorted(k.steps)})
