"""Native confirmation of counterexamples from harnesses that use stubs / contracts.

Kani's concrete playback does not apply #[kani::stub], so a counterexample of a modular
(assume-guarantee) harness cannot be replayed by the generated unit test.  Instead the
concrete top-level inputs of the counterexample are handed to a hand-written native test
(/verif/replay/<family>_native.rs, injected under #[cfg(test)] into the same scratch overlay)
that runs the REAL, unstubbed code on those inputs and on a small directed neighbourhood
and compares with the reference model.  Only if that test fails is a VIOLATION reported.
"""
import json
import os
import re
import subprocess

import xtverif as X


def _le(bs):
    v = 0
    for i, b in enumerate(bs):
        v |= b << (8 * i)
    return v


def decode(layout, vals):
    """layout: list of (name, kind) with kind in bytes/usize/u32/u8/bool; consumes vals in order"""
    out = {}
    i = 0
    for name, kind in layout:
        if i >= len(vals):
            break
        v = vals[i]
        i += 1
        out[name] = list(v) if kind == "bytes" else _le(v)
    return out


LAYOUTS = {
    "a1_nvs_step": [("buf", "bytes"), ("len", "usize"), ("d", "usize")],
    "a1_nvs_step_24": [("buf", "bytes"), ("len", "usize"), ("d", "usize")],
    "a2_seq_step": [("buf", "bytes"), ("len", "usize"), ("d", "usize"), ("count", "u32")],
    "a2_seq_step_16": [("buf", "bytes"), ("len", "usize"), ("d", "usize"), ("count", "u32")],
    "a3_map_step": [("buf", "bytes"), ("len", "usize"), ("d", "usize"), ("count", "u32")],
}

# family -> (module file in the overlay, native test file, test name)
FAMILIES = {
    "msgpack": ("src/msgpack.rs", "msgpack_native.rs", "verif_native::replay"),
}


def confirm_integration(h, ov, logdir, replay_path, testfile, release=False):
    """Run a native integration test file (real crates, public API) in a plain copy of the tree under test."""
    import shutil
    src = getattr(ov, "repo_copy", None) or ov.dir
    work = os.path.join(os.path.dirname(ov.dir), "native-" + h.name)
    shutil.rmtree(work, ignore_errors=True)
    # a clean copy of the tree under test (the overlay may carry model crates / injected modules)
    subprocess.run(["rsync", "-a", "--exclude", "/target", "--exclude", "/.git", X.REPO.rstrip("/") + "/", work + "/"], check=True)
    testfile, _, tfilter = testfile.partition(":")
    name = os.path.splitext(testfile)[0]
    shutil.copy(os.path.join(X.ROOT, "replay", testfile), os.path.join(work, "tests", testfile))
    env = dict(X.ENV)
    env["CARGO_TARGET_DIR"] = os.path.join(os.path.dirname(ov.dir), "t-native-int")
    lf = os.path.join(logdir, h.name + ".native.log")
    try:
        with open(lf, "w") as f:
            rel = ["--release"] if (h.overlay == "e1r" or release) else []  # release semantics: replay in the profile users run
            subprocess.run(["cargo", "test", "--offline"] + rel + ["--test", name] + ([tfilter] if tfilter else []) + ["--", "--test-threads", "1"], cwd=work, stdout=f,
                           stderr=subprocess.STDOUT, env=env, timeout=1200)
    except subprocess.TimeoutExpired:
        return None, "native replay timed out (see %s)" % lf
    out = open(lf, errors="replace").read()
    shutil.rmtree(work, ignore_errors=True)
    with open(replay_path, "a") as f:
        f.write("\n// ---- native confirmation through the real crates and the public API ----\n")
        f.write("// run-native: cp /verif/replay/%s <xt checkout>/tests/ && cargo test --offline %s--test %s\n" % (testfile, "--release " if (h.overlay == "e1r" or release) else "", name))
        for line in re.findall(r"^\d+ violations, first:.*$|^.*panicked at.*\n.*$", out, re.M)[:5]:
            f.write("// " + line.replace("\n", " ")[:600] + "\n")
    if re.search(r"test result: FAILED", out):
        mm = re.findall(r"^(\d+ violations, first:.*)$", out, re.M) or [x.replace("\n", " ") for x in re.findall(r"panicked at [^\n]*\n([^\n]*)", out)]
        return True, (mm[0][:300] if mm else "native test failed (see %s)" % lf)
    if re.search(r"non-unwinding panic|unsafe precondition\(s\) violated", out) and re.search(r"SIGABRT|signal: 6", out):
        # std's debug-profile check of an unsafe precondition (e.g. Vec::set_len beyond the capacity) fired: the real
        # code committed the undefined behaviour the harness flagged, and only the debug build notices
        return True, "the real code aborts on a violated unsafe precondition (non-unwinding panic) - undefined behaviour in a release build"
    if re.search(r"SIGSEGV|signal: 11|SIGBUS|signal: 7", out):
        return True, "the real code dies from a memory fault (SIGSEGV) in the native run"
    if re.search(r"test result: ok\. [1-9]", out):
        return False, "the native single-fault sweep through the real crates finds nothing"
    return None, "native replay did not run (see %s)" % lf


INTEGRATION = {"stream": "stream_native.rs", "f2": "defects_native.rs:f2_", "f3": "defects_native.rs:f3_", "f4": "defects_native.rs:f4_", "f5": "defects_native.rs:f5_",
               "overclaim": "overclaim_native.rs"}


def confirm(h, ov, vals, logdir, replay_path):
    fam = h.replay
    if fam in INTEGRATION:
        return confirm_integration(h, ov, logdir, replay_path, INTEGRATION[fam])
    if fam not in FAMILIES:
        return None, "no native replay for family %s" % fam
    modfile, testfile, testname = FAMILIES[fam]
    ce = decode(LAYOUTS.get(h.name, []), vals)
    ce["harness"] = h.name
    cef = os.path.join(logdir, h.name + ".ce.json")
    json.dump(ce, open(cef, "w"))
    tpath = os.path.join(X.ROOT, "replay", testfile)
    mp = os.path.join(ov.dir, modfile)
    src = open(mp).read()
    marker = '\n#[cfg(test)]\n#[path = "%s"]\nmod verif_native;\n' % tpath
    if marker not in src:
        open(mp, "a").write(marker)
    env = dict(X.ENV)
    env["XT_VERIF_CE"] = cef
    env["CARGO_TARGET_DIR"] = os.path.join(os.path.dirname(ov.dir), "t-native")
    lf = os.path.join(logdir, h.name + ".native.log")
    cmd = ["cargo", "test", "--offline", "--lib", testname, "--", "--nocapture", "--test-threads", "1"]
    try:
        with open(lf, "w") as f:
            p = subprocess.run(cmd, cwd=ov.dir, stdout=f, stderr=subprocess.STDOUT, env=env, timeout=900)
    except subprocess.TimeoutExpired:
        return None, "native replay timed out (see %s)" % lf
    out = open(lf, errors="replace").read()
    with open(replay_path, "a") as f:
        f.write("\n// ---- native confirmation on the real, unstubbed code ----\n")
        f.write("// counterexample inputs: %s\n" % json.dumps(ce))
        f.write("// run-native: XT_VERIF_CE=<json file with the line above> cargo test --offline --lib %s (test file %s injected into %s)\n"
                % (testname, tpath, modfile))
        for line in re.findall(r"^NATIVE-MISMATCH.*$", out, re.M)[:10]:
            f.write("// " + line + "\n")
    if re.search(r"test result: FAILED|panicked at|SIGABRT|signal: 6", out):
        mm = re.findall(r"^NATIVE-MISMATCH.*$", out, re.M)
        return True, (mm[0] if mm else "native test failed (see %s)" % lf)
    if re.search(r"test result: ok\. 1 passed", out):
        return False, "real code agrees with the reference on the counterexample inputs and their neighbourhood"
    return None, "native replay did not run (see %s)" % lf
