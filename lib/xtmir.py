#!/usr/bin/env python3
"""xtmir - E3 engine: bounded symbolic execution of rustc's MIR text with z3 (DESIGN.md 4, 5.K).

* locals are terms of an uninterpreted sort V; `disc`, `asint`, `asstr` and per-field projection
  functions give them structure; references are transparent, moves are copies;
* `switchInt` adds to the path condition and infeasible arms are pruned by the solver;
* calls are uninterpreted (fresh result, or a z3 function application for functions declared
  pure) unless listed in the table of interpreted std functions below;
* observable calls append events to the path's trace; properties are assertions over the
  trace, the path condition and the arguments of observable calls;
* any MIR construct the executor does not understand raises Inconclusive - never a pass.
"""
import re
import z3


class Inconclusive(Exception):
    pass


NOISE = re.compile(r"^(StorageLive|StorageDead|FakeRead|PlaceMention|AscribeUserType|nop|Retag|Coverage|ConstEvalCounter)")

# enum variant -> discriminant (builtin + read from the sources by load_enums)
VARIANTS = {
    "Ok": 0, "Err": 1, "None": 0, "Some": 1, "Continue": 0, "Break": 1,
}


def load_enums(*sources):
    """`enum Name { A, B(..), C }` declarations in the given Rust sources -> VARIANTS"""
    for src in sources:
        try:
            text = open(src).read()
        except OSError:
            continue
        text = re.sub(r"//[^\n]*", "", text)
        for m in re.finditer(r"\benum\s+(\w+)(?:<[^>{]*>)?\s*(?:where[^{]*)?\{(.*?)\n\}", text, re.S):
            body = m.group(2)
            depth, cur, names = 0, "", []
            for ch in body:
                if ch in "([{<":
                    depth += 1
                elif ch in ")]}>":
                    depth -= 1
                if ch == "," and depth == 0:
                    names.append(cur)
                    cur = ""
                else:
                    cur += ch
            names.append(cur)
            idx = 0
            for n in names:
                n = re.sub(r"#\[[^\]]*\]", "", n).strip()
                mm = re.match(r"^(\w+)", n)
                if mm:
                    VARIANTS.setdefault(mm.group(1), idx)
                    if VARIANTS[mm.group(1)] != idx:
                        # same variant name with different index in two enums: keep per-enum key too
                        pass
                    VARIANTS[m.group(1) + "::" + mm.group(1)] = idx
                    idx += 1


class Function:
    def __init__(self, name, sig, body):
        self.name, self.sig = name, sig
        self.blocks = {}
        self.types = {}
        self.debug = {}
        for m in re.finditer(r"^\s*let (?:mut )?(_\d+): (.+);$", body, re.M):
            self.types[m.group(1)] = m.group(2)
        for m in re.finditer(r"^\s*debug (\w+) => (_\d+);$", body, re.M):
            self.debug.setdefault(m.group(1), m.group(2))
        am = re.match(r"^fn .*?\((.*)\) -> ", sig)
        self.args = []
        if am:
            for a in split_top(am.group(1)):
                mm = re.match(r"^(_\d+): (.+)$", a.strip())
                if mm:
                    self.args.append(mm.group(1))
                    self.types[mm.group(1)] = mm.group(2)
        for bm in re.finditer(r"^    (bb\d+)(?: \(cleanup\))?: \{\n(.*?)^    \}", body, re.S | re.M):
            lines = [l.strip() for l in bm.group(2).strip().split("\n")]
            self.blocks[bm.group(1)] = [l for l in lines if l and not NOISE.match(l)]


class Mir:
    def __init__(self, path):
        self.text = open(path).read()
        self.functions = {}
        for m in re.finditer(r"^(fn (.+?)\(.*?\) -> .*?) \{\n(.*?)^\}\n", self.text, re.S | re.M):
            name = m.group(2)
            if name not in self.functions:  # duplicates (ctor shims) keep the first
                self.functions[name] = Function(name, m.group(1), m.group(3))

        for m in re.finditer(r"^const ([^\n]+) = \{\n(.*?)^\}\n", self.text, re.S | re.M):
            head = m.group(1)
            if ": " not in head:
                continue
            name = "const " + head.rsplit(": ", 1)[0].strip()
            if name not in self.functions:
                self.functions[name] = Function(name, "fn %s() -> " % name, m.group(2))

        # one-line constants: `const NAME: T = const VALUE;`
        self.simple_consts = {}
        for m in re.finditer(r"^const ([^\n]+): [^=\n:]+ = const ([^;\n]+);$", self.text, re.M):
            self.simple_consts[m.group(1).strip()] = m.group(2).strip()

    def simple_const(self, path):
        if path in self.simple_consts:
            return self.simple_consts[path]
        last = path.split("::")[-1]
        hits = [v for k, v in self.simple_consts.items() if k.split("::")[-1] == last]
        return hits[0] if len(hits) == 1 else None

    def const_item(self, path):
        if ("const " + path) in self.functions:
            return self.functions["const " + path]
        last = path.split("::")[-1]
        hits = [f for n, f in self.functions.items() if n.startswith("const ") and n.split("::")[-1].replace("const ", "") == last]
        return hits[0] if len(hits) == 1 else None

    def find(self, pattern):
        hits = [f for n, f in self.functions.items() if re.search(pattern, n)]
        if len(hits) != 1:
            raise Inconclusive("function %r: %d matches in MIR (%s)" % (pattern, len(hits), [h.name for h in hits][:4]))
        return hits[0]


def split_top(s):
    out, depth, cur = [], 0, ""
    i = 0
    instr = False
    while i < len(s):
        ch = s[i]
        if instr:
            cur += ch
            if ch == "\\":
                cur += s[i + 1]
                i += 1
            elif ch == '"':
                instr = False
        else:
            if ch == '"':
                instr = True
            if ch in "([{<":
                depth += 1
            elif ch in ")]}>":
                if not (ch == ">" and i > 0 and s[i - 1] in "-="):
                    depth -= 1
            if ch == "," and depth == 0:
                out.append(cur.strip())
                cur = ""
                i += 1
                continue
            cur += ch
        i += 1
    if cur.strip():
        out.append(cur.strip())
    return out


# -------------------------------------------------------------------------------------------------
# symbolic values
# -------------------------------------------------------------------------------------------------

V = z3.DeclareSort("V")
disc = z3.Function("disc", V, z3.IntSort())
asint = z3.Function("asint", V, z3.IntSort())
asstr = z3.Function("asstr", V, z3.StringSort())
_proj = {}
_pure = {}
_counter = [0]


def proj(base, name):
    key = re.sub(r"\W+", "_", name)
    f = _proj.setdefault(key, z3.Function("proj_" + key, V, V))
    return f(base)


def fresh(tag="v"):
    _counter[0] += 1
    return z3.Const("%s#%d" % (re.sub(r"\W+", "_", tag)[:40], _counter[0]), V)


def pure_fn(name, arity):
    key = (name, arity)
    if key not in _pure:
        _pure[key] = z3.Function("fn_" + re.sub(r"\W+", "_", name), *([V] * arity + [V]))
    return _pure[key]


class Path:
    def __init__(self):
        self.env = {}
        self.pc = []
        self.trace = []
        self.ghost = {}
        self.depth = 0

    def clone(self):
        p = Path()
        p.env = dict(self.env)
        p.pc = list(self.pc)
        p.trace = list(self.trace)
        p.ghost = dict(self.ghost)
        p.depth = self.depth
        return p


class Done(Exception):
    """raised by handlers to end a path (process::exit etc.)"""

    def __init__(self, how, value=None):
        self.how, self.value = how, value


class Exec:
    def __init__(self, mir, handler=None, max_paths=200000):
        self.mir = mir
        self.solver = z3.Solver()
        self.solver.set("timeout", 60000)
        self.handler = handler
        self.stats = dict(paths=0, pruned=0, queries=0, solver_s=0.0)
        self.max_paths = max_paths
        self.pure = set()        # callee-name regexes whose result is a function of the arguments
        self.inline = set()      # callee-name regexes executed from their own MIR
        self.consts = {}

    # ---- solver helpers
    def _check(self, *assumptions):
        import time
        t = time.time()
        self.stats["queries"] += 1
        self.solver.push()
        self.solver.add(*assumptions)
        r = self.solver.check()
        m = self.solver.model() if r == z3.sat else None
        self.solver.pop()
        self.stats["solver_s"] += time.time() - t
        if r == z3.unknown:
            raise Inconclusive("solver returned unknown: " + self.solver.reason_unknown())
        return r, m

    def feasible(self, p, extra=None):
        r, _ = self._check(*(p.pc + ([extra] if extra is not None else [])))
        return r == z3.sat

    def valid(self, p, claim):
        """(True, None) if pc => claim, else (False, model)"""
        r, m = self._check(*(p.pc + [z3.Not(claim)]))
        return r == z3.unsat, m

    # ---- constants
    def intv(self, k):
        key = ("i", k)
        if key not in self.consts:
            v = z3.Const("int_%s" % str(k).replace("-", "m"), V)
            self.solver.add(asint(v) == k)
            self.consts[key] = v
        return self.consts[key]

    def strv(self, s):
        key = ("s", s)
        if key not in self.consts:
            v = z3.Const("str_%d" % len(self.consts), V)
            self.solver.add(asstr(v) == z3.StringVal(s))
            self.consts[key] = v
        return self.consts[key]

    def variant(self, name, enum=None):
        if enum and (enum + "::" + name) in VARIANTS:
            return VARIANTS[enum + "::" + name]
        if name in VARIANTS:
            return VARIANTS[name]
        raise Inconclusive("unknown enum variant %s" % name)

    # ---- places / operands / rvalues
    def place(self, p, s):
        s = s.strip()
        if re.match(r"^_\d+$", s):
            if s not in p.env:
                p.env[s] = fresh("uninit" + s)
            return p.env[s]
        if s.startswith("(") and s.endswith(")"):
            inner = s[1:-1]
            if inner.startswith("*"):
                return self.place(p, inner[1:])
            # (base.N: T) | ((base as Variant).N: T) | (base as Variant)
            m = re.match(r"^(.*)\.(\d+): (.+)$", inner, re.S)
            if m:
                base = m.group(1).strip()
                vm = re.match(r"^\((.*) as (\w+)\)$", base)
                if vm:
                    return proj(self.place(p, vm.group(1)), "%s.%s" % (vm.group(2), m.group(2)))
                return proj(self.place(p, base), "f" + m.group(2))
            vm = re.match(r"^(.*) as (\w+)$", inner)
            if vm:
                return self.place(p, vm.group(1))
        if s.startswith("*"):
            return self.place(p, s[1:])
        m = re.match(r"^(.+)\[.+\]$", s)
        if m:
            return proj(self.place(p, m.group(1)), "idx")
        raise Inconclusive("unsupported place %r" % s)

    def assign(self, p, dst, val):
        dst = dst.strip()
        if re.match(r"^_\d+$", dst):
            p.env[dst] = val
            return
        if dst.startswith("(") and dst.endswith(")"):
            inner = dst[1:-1]
            if inner.startswith("*"):
                return self.assign(p, inner[1:], val)
            m = re.match(r"^(.*)\.(\d+): (.+)$", inner, re.S)
            if m:
                base = m.group(1).strip()
                vm = re.match(r"^\((.*) as (\w+)\)$", base)
                bplace = vm.group(1) if vm else base
                fname = "%s.%s" % (vm.group(2), m.group(2)) if vm else "f" + m.group(2)
                old = self.place(p, bplace)
                new = fresh("upd")
                p.pc.append(proj(new, fname) == val)
                p.pc.append(disc(new) == disc(old))
                for k in range(0, 4):
                    other = ("%s.%d" % (vm.group(2), k)) if vm else "f%d" % k
                    if other != fname:
                        p.pc.append(proj(new, other) == proj(old, other))
                return self.assign(p, bplace, new)
        if dst.startswith("*"):
            return self.assign(p, dst[1:], val)
        raise Inconclusive("unsupported assignment target %r" % dst)

    def const(self, p, c):
        c = c.strip()
        if c == "true":
            return self.intv(1)
        if c == "false":
            return self.intv(0)
        m = re.match(r"^(-?\d+)_(?:[iu]\d+|[iu]size)$", c)
        if m:
            return self.intv(int(m.group(1)))
        m = re.match(r"^'(.)'$", c)
        if m:
            return self.intv(ord(m.group(1)))
        m = re.match(r'^b?"((?:[^"\\]|\\.)*)"$', c, re.S)
        if m:
            raw = m.group(1)
            try:
                s = bytes(raw, "utf-8").decode("unicode_escape")
            except Exception:
                s = raw
            return self.strv(s)
        if c == "()":
            return self.intv(0)
        if re.match(r"^[\w:]*::[A-Z][A-Z0-9_]+$", c) or re.match(r"^[A-Z][A-Z0-9_]+$", c) or re.search(r"::promoted\[\d+\]$", c):
            simple = self.mir.simple_const(c)
            if simple is not None and simple != c:
                v = self.const(p, simple)
                try:
                    v.__dict__["mir_const"] = c
                except Exception:
                    pass
                return v
            item = self.mir.const_item(c)
            key = ("k", c)
            if item is not None:
                if key not in self.consts:
                    results = []
                    q = Path()
                    sub_handler, self.handler = self.handler, None
                    try:
                        self.run(item, q, None, lambda qp, how, value: results.append((qp, how, value)))
                    finally:
                        self.handler = sub_handler
                    rets = [(qp, v) for qp, how, v in results if how == "return"]
                    if len(rets) == 1:
                        for cnd in rets[0][0].pc:
                            self.solver.add(cnd)
                        rets[0][1].__dict__["mir_const"] = c
                        self.consts[key] = rets[0][1]
                if key in self.consts:
                    return self.consts[key]
        vm = re.match(r"^(?:[\w]+(?:::<.*?>)?::)*(\w+)$", c)
        if vm and vm.group(1) in VARIANTS and re.search(r"::", c) and vm.group(1) in ("None",):
            # a unit variant written as a constant, e.g. `const Option::<Infallible>::None`
            v = fresh(vm.group(1))
            p.pc.append(disc(v) == VARIANTS[vm.group(1)])
            return v
        # function items, ZeroSized closures, promoted constants ...
        key = ("c", c)
        if key not in self.consts:
            self.consts[key] = z3.Const("const_%d" % len(self.consts), V)
        v = self.consts[key]
        v.__dict__["mir_const"] = c
        return v

    def operand(self, p, o):
        o = o.strip()
        m = re.match(r"^(move|copy|no_retag copy|no_retag move) (.+)$", o, re.S)
        if m:
            return self.place(p, m.group(2))
        if o.startswith("const "):
            return self.const(p, o[6:])
        # bare function item used as an argument (e.g. try_parse_format)
        return self.const(p, o)

    def aggregate(self, p, r):
        """Variant(args) | Path::Variant | {closure} { a: x } | Struct { a: x } | (a, b) | [a, b]"""
        r = r.strip()
        if r.startswith("(") and r.endswith(")"):
            items = split_top(r[1:-1])
            v = fresh("tuple")
            for i, it in enumerate(items):
                if it:
                    p.pc.append(proj(v, "f%d" % i) == self.operand(p, it))
            return v
        if r.startswith("[") and r.endswith("]"):
            v = fresh("array")
            items = split_top(r[1:-1])
            for i, it in enumerate(items):
                if ";" in it:
                    continue
                p.pc.append(proj(v, "a%d" % i) == self.operand(p, it))
            return v
        m = re.match(r"^(\{closure@[^}]*\}|[\w:<>, &'\[\]()]+?) \{ (.*) \}$", r, re.S)
        if m:
            v = fresh("struct")
            for i, field in enumerate(split_top(m.group(2))):
                fm = re.match(r"^(\w+): (.+)$", field, re.S)
                if not fm:
                    raise Inconclusive("unsupported aggregate field %r" % field)
                val = self.operand(p, fm.group(2))
                p.pc.append(proj(v, "f%d" % i) == val)
                p.pc.append(proj(v, "n_" + fm.group(1)) == val)
            return v
        m = re.match(r"^((?:[\w]+(?:::<[^()]*?>)?::)*)(\w+)(?:::<.*?>)?(?:\((.*)\))?$", r, re.S)
        if not m:
            # generic arguments that contain parentheses, e.g. Result::<(), Error>::Ok(const ())
            head = r
            args_txt = None
            if r.endswith(")"):
                depth = 0
                for i in range(len(r) - 1, -1, -1):
                    if r[i] == ")":
                        depth += 1
                    elif r[i] == "(":
                        depth -= 1
                        if depth == 0:
                            head, args_txt = r[:i], r[i + 1:-1]
                            break
            flat, depth = "", 0
            i = 0
            while i < len(head):
                if head.startswith("::<", i):
                    depth += 1
                    i += 3
                    continue
                if depth and head[i] == "<":
                    depth += 1
                elif depth and head[i] == ">" and head[i - 1] != "-":
                    depth -= 1
                elif not depth:
                    flat += head[i]
                i += 1
            mm = re.match(r"^((?:\w+::)*)(\w+)$", flat)
            if mm:
                class _M:
                    def __init__(self, a, b, c):
                        self.g = (None, a, b, c)

                    def group(self, k):
                        return self.g[k]
                m = _M(mm.group(1), mm.group(2), args_txt)
        if m:
            prefix, name, args = m.group(1), m.group(2), m.group(3)
            enum = None
            pm = re.findall(r"(\w+)(?:::<[^()]*?>)?::", prefix)
            if pm:
                enum = pm[-1]
            if name in VARIANTS or (enum and enum + "::" + name in VARIANTS):
                v = fresh(name)
                p.pc.append(disc(v) == self.variant(name, enum))
                if args is not None:
                    for i, it in enumerate(split_top(args)):
                        p.pc.append(proj(v, "%s.%d" % (name, i)) == self.operand(p, it))
                return v
            if args is not None and re.match(r"^[A-Z]", name) and (not prefix or not re.search(r"[A-Z]\w*(::<[^()]*?>)?::$", prefix)):
                # tuple struct constructor `Name(a, b)`
                v = fresh(name)
                for i, it in enumerate(split_top(args)):
                    p.pc.append(proj(v, "f%d" % i) == self.operand(p, it))
                return v
        if re.match(r"^[A-Z]\w*$", r):
            # unit variant of an enum the executor does not know: one value per name, pairwise distinct
            key = ("u", r)
            if key not in self.consts:
                v = z3.Const("unit_" + r, V)
                self.solver.add(disc(v) == 100000 + len([k for k in self.consts if k[0] == "u"]))
                self.consts[key] = v
            return self.consts[key]
        raise Inconclusive("unsupported rvalue %r" % r)

    def rvalue(self, p, r, fn=None, dst=None):
        r = r.strip()
        if re.match(r"^(move|copy|no_retag copy|no_retag move|const) ", r):
            if " as " in r and re.search(r"\((?:IntToInt|PointerCoercion|Transmute|PtrToPtr)", r):
                return self.operand(p, r.split(" as ")[0])
            return self.operand(p, r)
        m = re.match(r"^&(?:mut |raw const |raw mut )?(.+)$", r, re.S)
        if m:
            return self.place(p, m.group(1))
        m = re.match(r"^([\w:<>]+) as .* \(PointerCoercion\(ReifyFnPointer", r, re.S)
        if m:
            # a function item reified to a function pointer: the value is the item
            return self.const(p, m.group(1))
        m = re.match(r"^discriminant\((.+)\)$", r)
        if m:
            v = fresh("disc")
            p.pc.append(asint(v) == disc(self.place(p, m.group(1))))
            return v
        m = re.match(r"^(Eq|Ne|Lt|Le|Gt|Ge|Add|Sub|BitAnd|BitOr)\((.+)\)$", r, re.S)
        if m:
            a, b = [self.operand(p, x) for x in split_top(m.group(2))]
            v = fresh(m.group(1))
            ia, ib = asint(a), asint(b)
            op = m.group(1)
            if op in ("Eq", "Ne", "Lt", "Le", "Gt", "Ge"):
                c = {"Eq": ia == ib, "Ne": ia != ib, "Lt": ia < ib, "Le": ia <= ib, "Gt": ia > ib, "Ge": ia >= ib}[op]
                p.pc.append(asint(v) == z3.If(c, 1, 0))
            elif op == "Add":
                p.pc.append(asint(v) == ia + ib)
            elif op == "Sub":
                p.pc.append(asint(v) == ia - ib)
            elif op == "BitAnd":
                p.pc.append(asint(v) == z3.If(z3.And(ia != 0, ib != 0), 1, 0))
            else:
                p.pc.append(asint(v) == z3.If(z3.Or(ia != 0, ib != 0), 1, 0))
            return v
        m = re.match(r"^(Add|Sub|Mul)WithOverflow\((.+)\)$", r, re.S)
        if m:
            a, b = [self.operand(p, x) for x in split_top(m.group(2))]
            val = fresh(m.group(1))
            ia, ib = asint(a), asint(b)
            p.pc.append(asint(val) == {"Add": ia + ib, "Sub": ia - ib, "Mul": ia * ib}[m.group(1)])
            t = fresh("checked")
            p.pc.append(proj(t, "f0") == val)
            p.pc.append(asint(proj(t, "f1")) == 0)
            return t
        m = re.match(r"^Mul\((.+)\)$", r, re.S)
        if m:
            a, b = [self.operand(p, x) for x in split_top(m.group(1))]
            v = fresh("mul")
            p.pc.append(asint(v) == asint(a) * asint(b))
            return v
        m = re.match(r"^PtrMetadata\((.+)\)$", r)
        if m:
            v = pure_fn("len", 1)(self.operand(p, m.group(1)))
            p.pc.append(asint(v) >= 0)
            return v
        m = re.match(r"^Not\((.+)\)$", r)
        if m:
            a = self.operand(p, m.group(1))
            v = fresh("not")
            p.pc.append(asint(v) == z3.If(asint(a) == 0, 1, 0))
            return v
        return self.aggregate(p, r)

    # ---- calls
    @staticmethod
    def parse_call(term):
        m = re.match(r"^(.*) -> (?:\[return: (bb\d+), unwind[^\]]*\]|unwind[: ]*[a-z0-9]+);$", term, re.S)
        if not m:
            return None
        lhs_call, ret = m.group(1), m.group(2)
        if not lhs_call.endswith(")"):
            return None
        depth, i, instr = 0, len(lhs_call) - 1, False
        while i >= 0:
            ch = lhs_call[i]
            if ch == '"' and (i == 0 or lhs_call[i - 1] != "\\"):
                instr = not instr
            if not instr:
                if ch == ")":
                    depth += 1
                elif ch == "(":
                    depth -= 1
                    if depth == 0:
                        break
            i -= 1
        args = lhs_call[i + 1:-1]
        head = lhs_call[:i]
        if " = " not in head:
            return None
        dst, fn = head.split(" = ", 1)
        return dst.strip(), fn.strip(), split_top(args), ret

    def std_call(self, p, fn, argv, dst_type):
        """interpreted std functions; returns a value, a list of (path, value) forks, or None"""
        short = re.sub(r"<[^<>]*>", "", re.sub(r"<[^<>]*>", "", re.sub(r"<[^<>]*>", "", fn)))
        if re.search(r" as Try>::branch$", fn):
            x = argv[0]
            res = fresh("cf")
            if re.match(r"^<(std::option::)?Option<", fn):
                p.pc.append(disc(res) == z3.If(disc(x) == 1, 0, 1))
                p.pc.append(proj(res, "Continue.0") == proj(x, "Some.0"))
                r = fresh("residual")
                p.pc.append(disc(r) == 0)
            else:
                p.pc.append(disc(res) == disc(x))
                p.pc.append(proj(res, "Continue.0") == proj(x, "Ok.0"))
                r = fresh("residual")
                p.pc.append(disc(r) == 1)
                p.pc.append(proj(r, "Err.0") == proj(x, "Err.0"))
            p.pc.append(proj(res, "Break.0") == r)
            return res
        if re.search(r"FromResidual<.*>>::from_residual$", fn):
            r = argv[0]
            res = fresh("fromres")
            p.pc.append(disc(res) == disc(r))
            p.pc.append(proj(res, "Err.0") == proj(r, "Err.0"))
            p.ghost["residual_src"] = r
            return res
        if re.search(r"Option::<.*>::is_some$", fn):
            res = fresh("is_some")
            p.pc.append(asint(res) == z3.If(disc(argv[0]) == 1, 1, 0))
            return res
        if re.search(r"Option::<.*>::is_none$", fn):
            res = fresh("is_none")
            p.pc.append(asint(res) == z3.If(disc(argv[0]) == 1, 0, 1))
            return res
        if re.search(r"Option::<.*>::take$|^std::mem::(replace|take)::<", fn) and getattr(self, "cur_fn", None) is not None:
            tgt = self.ref_target(p, self.cur_fn, self.raw_args[0])
            if tgt is not None:
                old = self.place(p, tgt)
                if re.search(r"mem::replace::<", fn):
                    new = argv[1]
                else:
                    new = fresh("none")
                    p.pc.append(disc(new) == 0)
                self.assign(p, tgt, new)
                return old
        if re.search(r"Option::<.*>::unwrap_or$", fn):
            res = fresh("unwrap_or")
            p.pc.append(res == z3.If(disc(argv[0]) == 1, proj(argv[0], "Some.0"), argv[1]))
            return res
        if re.search(r"<str as PartialEq>::eq$|<&str as PartialEq>::eq$|<PathBuf as PartialEq<&Path>>::eq$|<OsStr as PartialEq<str>>::eq$|<String as PartialEq<str>>::eq$", fn):
            res = fresh("streq")
            p.pc.append(asint(res) == z3.If(asstr(argv[0]) == asstr(argv[1]), 1, 0))
            return res
        if re.search(r"core::num::<impl \w+>::pow$", fn):
            res = fresh("pow")
            base = [c for (k, c), v in self.consts.items() if k == "i" and v is argv[0]]
            exp = [c for (k, c), v in self.consts.items() if k == "i" and v is argv[1]]
            if base and exp:
                p.pc.append(asint(res) == base[0] ** exp[0])
            return res
        if re.search(r"(Deref>::deref|::as_deref|IntoIterator>::into_iter|Path::new::<str>|::as_str|::as_ref|Borrow<.*>>::borrow|::as_path|PathBuf as From<OsString>>::from|::by_ref)$", fn):
            return argv[0]
        return None

    def ref_target(self, p, cur_fn, raw_arg):
        """the place a `&mut` argument points to (for handlers that model mutation through a reference)"""
        m = re.match(r"^(?:move|copy) (_\d+)$", raw_arg.strip())
        if not m:
            return None
        return p.ghost.get("_refs", {}).get(cur_fn.name + ":" + m.group(1))

    def call(self, p, fn_name, dst, fn, args, ret, cur_fn):
        argv = [self.operand(p, a) for a in args]
        self.raw_args = args
        self.cur_fn = cur_fn
        dst_type = cur_fn.types.get(dst, "")
        if self.handler:
            r = self.handler(self, p, fn, argv, dst, dst_type, cur_fn)
            if r is not None:
                return r
        r = self.std_call(p, fn, argv, dst_type)
        if r is not None:
            return r
        for pat in self.inline:
            if re.search(pat, fn):
                callee = self.mir.find(self.callee_pattern(fn))
                return ("inline", callee, argv)
        for pat in self.pure:
            if re.search(pat, fn):
                key = self.pure[pat] if isinstance(self.pure, dict) else (re.sub(r"<.*", "", fn) if not fn.startswith("<") else fn)
                return pure_fn(key, len(argv))(*argv) if argv else pure_fn(key, 0)()
        tm = re.match(r"^<(?:&mut |&)?([A-Za-z_]\w*)(?:<.*>)? as [\w:]+(?:<.*>)?>::(\w+)$", fn) if getattr(self, "auto_inline_local", False) else None
        if tm:
            # `<LocalType<..> as Trait>::method`: a trait method implemented in the crate under analysis
            cands = [f for n, f in self.mir.functions.items() if n.endswith("::" + tm.group(2)) and len(f.args) == len(argv) and f.args
                     and re.search(r"\b%s\b" % re.escape(tm.group(1)), f.types.get(f.args[0], ""))]
            if len(cands) == 1:
                return ("inline", cands[0], argv)
        if getattr(self, "auto_inline_local", False) and not re.search(r"^<|^std::|^core::|^alloc::", fn):
            # a function of the crate under analysis that no model covers: execute it from its own MIR
            last = re.sub(r"::<.*?>$", "", fn).split("::")[-1]
            parts = re.sub(r"::<.*?>$", "", fn).split("::")
            owner = parts[-2] if len(parts) >= 2 else None
            cands = [f for n, f in self.mir.functions.items() if re.search(r"(^|::)%s$" % re.escape(last), n) and len(f.args) == len(argv) and not n.startswith("const ")]
            if len(cands) > 1 and owner:
                cands = [f for f in cands if owner in f.sig or owner in f.name]
            if len(cands) == 1 and cands[0].name not in getattr(self, "no_auto_inline", ()):
                return ("inline", cands[0], argv)
        v = fresh(re.sub(r"<[^<>]*>", "", fn).split("::")[-1] or "call")
        if dst_type == "bool":
            p.pc.append(z3.Or(asint(v) == 0, asint(v) == 1))
        return v

    @staticmethod
    def callee_pattern(fn):
        # `InputPath::extension_format` in a call corresponds to `<impl at ...>::extension_format` in the dump
        last = re.sub(r"::<.*?>$", "", fn).split("::")[-1]
        m = re.match(r"^(\w+)::\{closure#(\d+)\}$", fn)
        return r"(^|::)%s$" % re.escape(last)

    # ---- execution
    def run(self, fn, p, args=None, on_finish=None, bb="bb0"):
        """explores all paths of `fn` from p; on_finish(path, how, value) is called per completed path"""
        if args:
            for name, val in zip(fn.args, args):
                p.env[name] = val
        work = [(p, bb)]
        while work:
            p, bb = work.pop()
            try:
                self._run_path(fn, p, bb, work, on_finish)
            except Done as d:
                self.stats["paths"] += 1
                if on_finish:
                    on_finish(p, d.how, d.value)
            if self.stats["paths"] > self.max_paths:
                raise Inconclusive("path budget exceeded")

    def _run_path(self, fn, p, bb, work, on_finish):
        steps = 0
        while True:
            steps += 1
            visits = p.ghost.get("_visits", {})
            key = fn.name + ":" + bb
            if visits.get(key, 0) > 24:
                raise Inconclusive("loop bound: block %s of %s visited more than 24 times on one path" % (bb, fn.name))
            visits = dict(visits)
            visits[key] = visits.get(key, 0) + 1
            p.ghost["_visits"] = visits
            if steps > 4000:
                raise Inconclusive("step budget exceeded in %s" % fn.name)
            if bb not in fn.blocks:
                raise Inconclusive("missing block %s in %s" % (bb, fn.name))
            stmts = fn.blocks[bb]
            for st in stmts[:-1]:
                m = re.match(r"^discriminant\((.+)\) = (\d+);$", st)
                if m:
                    old = self.place(p, m.group(1))
                    new = fresh("setdisc")
                    p.pc.append(disc(new) == int(m.group(2)))
                    self.assign(p, m.group(1), new)
                    continue
                if st.startswith("Deinit(") or st.startswith("assume(") or st.startswith("Assume("):
                    continue
                m = re.match(r"^(.+?) = (.+);$", st, re.S)
                if not m:
                    raise Inconclusive("unsupported statement %r" % st)
                rm = re.match(r"^&(?:mut |raw mut )(.+)$", m.group(2).strip())
                if rm and re.match(r"^_\d+$", m.group(1).strip()):
                    refs = dict(p.ghost.get("_refs", {}))
                    refs[fn.name + ":" + m.group(1).strip()] = rm.group(1).strip()
                    p.ghost["_refs"] = refs
                self.assign(p, m.group(1), self.rvalue(p, m.group(2), fn, m.group(1).strip()))
            term = stmts[-1]
            if term == "return;":
                raise Done("return", p.env.get("_0"))
            if term == "unreachable;":
                raise Done("unreachable")
            m = re.match(r"^goto -> (bb\d+);$", term)
            if m:
                bb = m.group(1)
                continue
            m = re.match(r"^drop\((.+)\) -> \[return: (bb\d+), .*\];$", term)
            if m:
                if self.handler:
                    self.handler(self, p, "drop", [self.place(p, m.group(1))], None, m.group(1), fn)
                bb = m.group(2)
                continue
            if term == "resume;":
                raise Done("dead")
            m = re.match(r"^assert\((.+?), .*\) -> \[success: (bb\d+), .*\];$", term, re.S)
            if m:
                bb = m.group(2)
                continue
            m = re.match(r"^switchInt\((.+)\) -> \[(.+)\];$", term)
            if m:
                v = self.operand(p, m.group(1))
                arms = [a.strip().rsplit(": ", 1) for a in split_top(m.group(2))]
                negs = []
                todo = []
                for val, tgt in arms:
                    if val == "otherwise":
                        cond = z3.And(negs) if negs else z3.BoolVal(True)
                    else:
                        eq = asint(v) == int(val)
                        cond = eq
                        negs.append(z3.Not(eq))
                    if fn.blocks.get(tgt) == ["unreachable;"]:
                        continue
                    if self.feasible(p, cond):
                        todo.append((cond, tgt))
                    else:
                        self.stats["pruned"] += 1
                if not todo:
                    raise Done("dead")
                for cond, tgt in todo[1:]:
                    q = p.clone()
                    q.pc.append(cond)
                    work.append((q, tgt))
                p.pc.append(todo[0][0])
                bb = todo[0][1]
                continue
            call = self.parse_call(term)
            if call:
                dst, cfn, args, ret = call
                r = self.call(p, fn.name, dst, cfn, args, ret, fn)
                if isinstance(r, tuple) and r and r[0] == "inline":
                    _, callee, argv = r
                    results = []
                    sub = Exec.__new__(Exec)
                    sub.__dict__ = self.__dict__
                    q0 = p.clone()
                    q0.env = {}
                    q0.depth = p.depth + 1
                    if q0.depth > 6:
                        raise Inconclusive("inline depth exceeded at %s" % cfn)

                    def fin(qp, how, value, results=results):
                        results.append((qp, how, value))
                    self.run(callee, q0, argv, fin)
                    conts = []
                    for qp, how, value in results:
                        if how == "return":
                            np = p.clone()
                            np.pc, np.trace, np.ghost = qp.pc, qp.trace, dict(qp.ghost)
                            np.ghost["_visits"] = p.ghost.get("_visits", {})
                            # write back what the callee did through `&mut` arguments
                            for raw, cl in zip(args, callee.args):
                                lm = re.match(r"^(?:move|copy) (_\d+)$", raw.strip())
                                if lm and fn.types.get(lm.group(1), "").startswith("&mut") and cl in qp.env:
                                    np.env[lm.group(1)] = qp.env[cl]
                                    tgt = p.ghost.get("_refs", {}).get(fn.name + ":" + lm.group(1))
                                    if tgt:
                                        self.assign(np, tgt, qp.env[cl])
                            self.assign(np, dst, value if value is not None else fresh("unit"))
                            conts.append(np)
                        elif how in ("dead", "unreachable"):
                            continue
                        else:
                            # the callee ended the process: propagate
                            np = p.clone()
                            np.pc, np.trace, np.ghost = qp.pc, qp.trace, qp.ghost
                            self.stats["paths"] += 1
                            if on_finish:
                                on_finish(np, how, value)
                    if ret is None:
                        raise Done("diverged")
                    for np in conts[1:]:
                        work.append((np, ret))
                    if not conts:
                        raise Done("dead")
                    p.__dict__.update(conts[0].__dict__)
                    bb = ret
                    continue
                if isinstance(r, list):  # forks: [(extra_condition, value)]
                    live = []
                    for item in r:
                        # (condition, value) or (condition, value, events the fork adds to the trace)
                        cond, val = item[0], item[1]
                        if self.feasible(p, cond):
                            live.append((cond, val, list(item[2]) if len(item) > 2 and item[2] else [], item[3] if len(item) > 3 and item[3] else {}))
                    # a fork whose value is ("__done__", how, value) ends its path there (e.g. a closure that exits the process)
                    ended = [f for f in live if isinstance(f[1], tuple) and f[1] and f[1][0] == "__done__"]
                    live = [f for f in live if not (isinstance(f[1], tuple) and f[1] and f[1][0] == "__done__")]
                    for cond, val, evs, gh in ended:
                        q = p.clone()
                        q.pc.append(cond)
                        q.trace = q.trace + evs
                        q.ghost.update(gh)
                        self.stats["paths"] += 1
                        if on_finish:
                            on_finish(q, val[1], val[2])
                    if not live:
                        raise Done("dead")
                    if ret is None:
                        raise Done("diverged")
                    for cond, val, evs, gh in live[1:]:
                        q = p.clone()
                        q.pc.append(cond)
                        q.trace = q.trace + evs
                        q.ghost.update(gh)
                        self.assign(q, dst, val)
                        work.append((q, ret))
                    p.pc.append(live[0][0])
                    p.trace = p.trace + live[0][2]
                    p.ghost = dict(p.ghost)
                    p.ghost.update(live[0][3])
                    self.assign(p, dst, live[0][1])
                    bb = ret
                    continue
                self.assign(p, dst, r)
                if ret is None:
                    raise Done("diverged")
                bb = ret
                continue
            raise Inconclusive("unsupported terminator %r" % term)
