"""Property-level orchestration: run the harness list, replay candidate violations, write evidence."""
import json
import os
import queue
import random
import re
import shutil
import subprocess
import time

import xtverif as X
import native

KNOWN_FILE = os.path.join(X.ROOT, "known_findings.json")


def load_known():
    try:
        return json.load(open(KNOWN_FILE)).get("findings", [])
    except FileNotFoundError:
        return []


def known_match(known, prop, h, r):
    """A violated harness is a known finding iff EVERY failed check matches a listed finding
    of that harness (so that a different violation of the same property is still reported)."""
    hits = []
    for c in r["failed_checks"]:
        if "unwinding assertion" in c["description"]:
            return None
        m = [k for k in known if k.get("harness") == h.name and prop in k.get("properties", [k.get("property")])
             and re.search(k["match"], c["description"])]
        if not m:
            return None
        hits.append(m[0])
    return hits or None


def run_property(prop, tier, hs, seed, jobs=6, mem=50, keep=False):
    scratch = X.new_scratch()
    if keep:
        X._scratch_dirs.remove(scratch)
        X.log("scratch kept at " + scratch)
    logdir = os.path.join(scratch, "logs")
    os.makedirs(logdir)
    rnd = random.Random(seed)
    hs = list(hs)
    rnd.shuffle(hs)  # the seed only permutes the schedule; verdicts do not depend on it

    kani_hs = [h for h in hs if h.overlay != "e3"]
    e3_hs = [h for h in hs if h.overlay == "e3"]

    # one overlay per (kind, harness module): a change that breaks the compilation of one harness file (say, a private
    # field an inductive harness sets directly was removed) must not take the harnesses of other modules with it
    overlays = {}
    t = time.time()
    for kind, module, hfile in sorted(set((h.overlay, h.module, h.hfile or "") for h in kani_hs)):
        overlays[(kind, module, hfile)] = X.Overlay(kind, scratch, modules={module}, hfile=hfile or None)
    for kind in sorted(set(h.overlay for h in kani_hs)):
        X.log("[%s] overlay %s built from %s (%s) in %.1fs" % (prop, kind, X.REPO, X.repo_fingerprint(), time.time() - t))

    slots = {}
    for kind in sorted(set(k[0] for k in overlays)):
        q = queue.Queue()
        n = min(jobs, sum(1 for h in kani_hs if h.overlay == kind))
        for i in range(n):
            q.put(os.path.join(scratch, "t", re.sub(r"[^a-z0-9]+", "-", kind), "s%d" % i))
        slots[kind] = q

    known = load_known()
    results = {}

    def job(h):
        ov = overlays[(h.overlay, h.module, h.hfile or "")]
        tdir = slots[h.overlay].get()
        try:
            os.makedirs(os.path.dirname(tdir), exist_ok=True)
            X.seed_target_dir(h.overlay, tdir)
            r = X.run_kani(h, ov, tdir, logdir)
            verdict, detail = X.classify(h, r)
            r["verdict"], r["detail"] = verdict, detail
            if verdict == "violated":
                kf = known_match(known, prop, h, r)
                if kf:
                    r["verdict"] = "known_finding"
                    r["known"] = kf
                else:
                    confirm(prop, h, ov, tdir, logdir, r)
                    if r["verdict"] == "violated" and not os.environ.get("VERIF_NO_EARLY_EXIT"):
                        X.kill_others()
            X.log("[%s] %-30s %-13s %s" % (prop, h.name, r["verdict"], r["detail"]))
            return r
        finally:
            slots[h.overlay].put(tdir)

    # the E3 queries (one z3 process, little memory) run alongside the CBMC pool
    e3_out = []
    e3_thread = None
    if e3_hs:
        import threading
        import e3run

        def run_e3():
            try:
                e3_out.extend(e3run.run(prop, e3_hs, scratch, logdir))
            except Exception as e:  # noqa
                for h in e3_hs:
                    e3_out.append((h, {"harness": h.name, "verdict": "inconclusive", "detail": "E3 runner error: %r" % e, "wall_s": 0,
                                       "checks": None, "time_s": None, "covers": {}, "failed_checks": []}))
        e3_thread = threading.Thread(target=run_e3)
        e3_thread.start()
    pool = X.Pool(budget_gb=mem, max_jobs=jobs)
    res = pool.run_all([(h.mem_gb, (lambda h=h: job(h))) for h in kani_hs])
    for h, r in zip(kani_hs, res):
        if isinstance(r, Exception):
            r = {"harness": h.name, "verdict": "inconclusive", "detail": "runner error: %r" % r, "wall_s": 0,
                 "checks": None, "time_s": None, "covers": {}, "failed_checks": []}
            X.log("[%s] %-30s inconclusive   %s" % (prop, h.name, r["detail"]))
        results[h.name] = r

    if e3_thread:
        e3_thread.join()
        for h, r in e3_out:
            results[h.name] = r
            X.log("[%s] %-30s %-13s %s" % (prop, h.name, r["verdict"], r["detail"]))

    code = 0
    for h in hs:
        r = results[h.name]
        if r["verdict"] == "known_finding":
            for k in r["known"]:
                print("KNOWN-FINDING: property=%s %s %s" % (prop, k["id"], k["what"]), flush=True)
    for h in hs:
        r = results[h.name]
        if r["verdict"] == "violated":
            print("VIOLATION property=%s replay=%s" % (prop, r["replay"]), flush=True)
            print("  harness %s: %s" % (h.name, r["detail"]), flush=True)
            code = 1
    for h in hs:
        r = results[h.name]
        if r["verdict"] == "inconclusive" and h.best_effort and "did NOT reproduce" not in r["detail"]:
            r["verdict"] = "not_completed"
            print("NOT-COMPLETED (best effort) property=%s harness=%s: %s" % (prop, h.name, r["detail"]), flush=True)
    if code == 0 and any(results[h.name]["verdict"] in ("inconclusive", "skipped") for h in hs):
        for h in hs:
            r = results[h.name]
            if r["verdict"] == "inconclusive":
                print("INCONCLUSIVE property=%s harness=%s: %s" % (prop, h.name, r["detail"]), flush=True)
        code = 2
    if keep or code != 0:
        # keep the logs of a failing run for inspection (small)
        dst = os.path.join(X.ROOT, "logs", "%s-%s" % (prop, tier))
        shutil.rmtree(dst, ignore_errors=True)
        os.makedirs(os.path.dirname(dst), exist_ok=True)
        shutil.copytree(logdir, dst)
    return {"exit": code, "results": results, "harnesses": hs, "overlays": {"/".join(k): v.kind for k, v in overlays.items()}}


def confirm(prop, h, ov, tdir, logdir, r):
    """Native replay of a candidate violation. Sets r['verdict'] to violated or inconclusive."""
    replay_path = os.path.join(X.ROOT, "replays", "%s-%s.rs" % (prop, h.name))
    if h.replay in native.INTEGRATION:
        rep, info, vals = None, "native integration replay", None  # cheaper and more direct than a second solver run
    else:
        try:
            rep, info, vals = X.playback(h, ov, tdir, logdir, replay_path)
        except Exception as e:  # noqa
            rep, info, vals = None, "playback error: %r" % e, None
    r["replay"] = replay_path
    if rep is None and h.replay == "playback" and h.module == "yaml::encoding":
        # Kani's trace-producing run is far heavier than the verdict run for the decoder harnesses and may not finish:
        # fall back to the statement of C07 itself through the real crates (every scalar value, every encoding)
        if not os.path.exists(replay_path):
            os.makedirs(os.path.dirname(replay_path), exist_ok=True)
            open(replay_path, "w").write("// solver counterexample of harness %s (%s)\n// failed checks: %s\n" % (h.name, h.desc, r["detail"]))
        rep, info = native.confirm_integration(h, ov, logdir, replay_path, "encoding_native.rs", release=True)
    if h.replay == "none":
        # stubs of std functions: Kani's playback cannot apply them; the solver trace is the replay artefact
        r["verdict"] = "violated"
        r["replay_info"] = "solver counterexample (concrete values in the replay file); no native replay for this harness"
        r["detail"] += " | " + r["replay_info"]
        return
    if h.replay in native.INTEGRATION and not rep:
        # Kani could not produce / reproduce a playback test: confirm through the real crates
        if not os.path.exists(replay_path):
            os.makedirs(os.path.dirname(replay_path), exist_ok=True)
            open(replay_path, "w").write("// solver counterexample of harness %s (%s)\n// failed checks: %s\n" % (h.name, h.desc, r["detail"]))
        rep, info = native.confirm(h, ov, vals or [], logdir, replay_path)
    elif h.replay not in ("playback",) + tuple(native.INTEGRATION) and vals is not None:
        rep, info = native.confirm(h, ov, vals, logdir, replay_path)
    r["replay_info"] = info
    if rep:
        r["verdict"] = "violated"
        r["detail"] += " | native replay: %s" % (info,)
    else:
        r["verdict"] = "inconclusive"
        r["detail"] = "solver counterexample (%s) did NOT reproduce natively: %s" % (r["detail"], info)


def replay_file(path):
    txt = open(path).read()
    m = re.search(r"// run-native: (.*)", txt)
    print(txt[:2000])
    if m:
        print("native command:", m.group(1))
    return 0


# ---------------------------------------------------------------------------------------------
# evidence
# ---------------------------------------------------------------------------------------------

def write_evidence(prop, tier, seed, out, wall):
    hs, results = out["harnesses"], out["results"]
    samples, funcs, assumptions, incon = [], [], [], []
    checks = 0
    solver = 0.0
    nontrivial = 0
    evaluations = 0
    for h in hs:
        r = results[h.name]
        evaluations += (r.get("checks") or r.get("queries") or 0)
        checks += (r.get("checks") or 0)
        solver += (r.get("time_s") or 0.0)
        sat_covers = [c for c, s in (r.get("covers") or {}).items() if s == "SATISFIED"]
        if r["verdict"] in ("discharged", "known_finding") and (sat_covers or r.get("witnesses")):
            nontrivial += 1
        samples.append({"harness": h.name, "engine": "kani/cbmc" if h.overlay != "e3" else "xtmir/z3",
                        "overlay": h.overlay, "encodes": h.desc, "bounds": h.bounds,
                        "verdict": r["verdict"], "detail": r["detail"],
                        "cbmc_checks": r.get("checks"), "solver_s": r.get("time_s"), "wall_s": r.get("wall_s"),
                        "vacuity_witnesses_satisfied": sat_covers or r.get("witnesses") or [],
                        **({"queries": r["queries"]} if r.get("queries") else {}),
                        **({"paths": r["paths"]} if r.get("paths") else {})})
        for f in h.functions:
            if f not in funcs:
                funcs.append(f)
        for a in h.assumptions:
            if a not in assumptions:
                assumptions.append(a)
        if r["verdict"] in ("inconclusive", "not_completed"):
            incon.append({"harness": h.name, "why": r["detail"], "best_effort": h.best_effort})
    ev = {
        "property_id": prop, "tier": tier, "seed": seed, "level": "model_checking",
        "coverage": {
            "evaluations": evaluations,
            "distinct_nontrivial": nontrivial,
            "rule": "evaluations = solver-decided obligations (CBMC properties incl. unwinding assertions, or z3 queries) over the "
                    "encodings regenerated from /repo's working tree in this run; a harness counts as distinct and non-trivial when it was "
                    "discharged AND at least one of its reachability witnesses (kani::cover / E3 path witnesses) was satisfied, i.e. the "
                    "assertions were reached under satisfiable assumptions",
            "samples": samples,
            "functions_encoded": funcs,
            "harnesses": len(hs),
            "checks_discharged": checks,
            "solver_s": round(solver, 1),
            "inconclusive": incon,
            "tree": X.repo_fingerprint(),
            "trusted_base": ["rustc / Kani 0.68 MIR->goto translation", "CBMC 6.11 + cadical", "z3 4.8.12 (E3)",
                             "harness-side reference models in /verif/harness", "dependency models in /verif/models (where overlay = dep:*)"],
            "explanation": "bounded, solver-decided: within each harness's stated bounds the assertion holds for every value (unwinding "
                           "assertions on); nothing is claimed outside the bounds",
        },
        "assumptions": assumptions,
        "wall_s": round(wall, 1),
        "violations": sum(1 for h in hs if results[h.name]["verdict"] == "violated"),
    }
    os.makedirs(os.path.join(X.ROOT, "evidence"), exist_ok=True)
    with open(os.path.join(X.ROOT, "evidence", prop + ".json"), "w") as f:
        json.dump(ev, f, indent=1)
