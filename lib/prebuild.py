#!/usr/bin/env python3
"""Pre-build Kani dependency artifacts per overlay kind into /verif/.cache (gitignored)."""
import os, re, shutil, subprocess, sys, time
sys.path.insert(0, os.path.dirname(os.path.abspath(__file__)))
import xtverif as X
import registry as R

kinds = sorted(set(h.overlay for h in R.H if h.overlay != "e3"))
scratch = X.new_scratch()
os.makedirs(X.CACHE, exist_ok=True)
for kind in kinds:
    t = time.time()
    ov = X.Overlay(kind, scratch)
    dst = os.path.join(X.CACHE, "target-" + re.sub(r"[^a-z0-9]+", "-", kind))
    shutil.rmtree(dst, ignore_errors=True)
    p = subprocess.run(["cargo", "kani", "-Z", "stubbing", "--only-codegen", "--target-dir", dst],
                       cwd=ov.dir, env=X.ENV, stdout=subprocess.PIPE, stderr=subprocess.STDOUT, text=True)
    print("prebuild %s: exit %d in %.0fs" % (kind, p.returncode, time.time() - t))
    if p.returncode != 0:
        print(p.stdout[-3000:])
        shutil.rmtree(dst, ignore_errors=True)
