"""E3 queries K16-K19: the libyaml binding's glue (src/yaml/chunker/parser.rs) from the library crate's MIR.

K16 Parser::new        : call protocol initialize -> (checked) -> set_encoding(UTF8) -> set_input(read_handler, read state)
K17 ParserError        : what ParserError::new copies out of yaml_parser_t, LocatedError::from_parts' position arithmetic,
                         and the text both Display impls produce (templates + arguments, no other dependence on the data)
K18 Parser::next_event : Ok passes through; on failure the reader's stashed io::Error wins (and is taken out of the stash),
                         else InvalidData wrapping the ParserError
K19 pairing            : Event::parse_next initialises an Event iff libyaml reported success; Event::drop and Parser::drop
                         release each resource exactly once, parser first

libyaml's struct layouts (field order of yaml_parser_t / yaml_mark_t) are read from the unsafe-libyaml sources in the cargo
registry, so that `.4` in the MIR can be named `problem_mark`.
"""
import glob
import os
import re

import z3

import xtmir as X
from xtmir import Inconclusive, asint, asstr, disc, fresh, proj, pure_fn
from e3props import closure_by_type, opt_combinator_handler


def struct_fields(path_glob, name):
    """field names of `pub struct <name> { ... }` in declaration order"""
    for f in sorted(glob.glob(path_glob)):
        txt = open(f, errors="replace").read()
        m = re.search(r"(?:pub(?:\(\w+\))? )?struct %s(?:<[^>]*>)?\s*(?:where[^{]*)?\{(.*?)\n\}" % re.escape(name), txt, re.S)
        if m:
            body = re.sub(r"/\*.*?\*/", "", m.group(1), flags=re.S)
            body = re.sub(r"//[^\n]*", "", body)
            names = re.findall(r"^\s*(?:pub(?:\([\w:]+\))? )?(\w+)\s*:", body, re.M)
            # `#[cfg(doc)] pub x: T, #[cfg(not(doc))] pub(crate) x: T` declares one field
            return [n for i, n in enumerate(names) if i == 0 or names[i - 1] != n]
    raise Inconclusive("struct %s not found in %s" % (name, path_glob))


def libyaml_src():
    home = os.environ.get("CARGO_HOME", os.path.expanduser("~/.cargo"))
    return os.path.join(home, "registry/src/*/unsafe-libyaml-*/src/*.rs")


def decode_fmt(s):
    """rustc's compact fmt::Arguments template: [len][len literal bytes] | 0xc0 (next argument, default format) | 0 end"""
    b = s.encode("latin-1", "replace") if isinstance(s, str) else s
    out, i = [], 0
    while i < len(b):
        n = b[i]
        if n == 0:
            return out
        if n == 0xc0:
            out.append(None)
            i += 1
            continue
        if n >= 0x80:
            raise Inconclusive("format template with a non-default placeholder (0x%02x)" % n)
        out.append(b[i + 1:i + 1 + n].decode("latin-1"))
        i += 1 + n
    return out


def const_text(ex, v):
    for (k, c), cv in ex.consts.items():
        if k == "s" and cv is v:
            return c
    return None


def run_closure(ex, p, body, call_args):
    results = []
    q0 = p.clone()
    q0.env = {}
    ex.run(body, q0, call_args, lambda qp, how, value: results.append((qp, how, value)))
    out = []
    for qp, how, value in results:
        if how != "return":
            raise Inconclusive("closure %s ended with %s" % (body.name, how))
        out.append((qp, value))
    return out


def combinators(mir):
    """bool::then, Result::map_err, Option::unwrap_or_else with closure bodies executed from MIR; Option::take"""
    opt = opt_combinator_handler(mir)

    def h(ex, p, fn, argv, dst, dst_type, cur_fn):
        r = opt(ex, p, fn, argv, dst, dst_type, cur_fn)
        if r is not None:
            return r
        cm = re.findall(r"\{closure@[^}]*\}", fn)
        if re.search(r"bool>::then::<", fn) and cm:
            body = closure_by_type(mir, cm[-1])
            out = []
            no = p.clone()
            no.pc.append(asint(argv[0]) == 0)
            if ex.feasible(no):
                v = fresh("none")
                out.append((z3.And(asint(argv[0]) == 0, disc(v) == 0), v))
            yes = p.clone()
            yes.pc.append(asint(argv[0]) != 0)
            if ex.feasible(yes):
                for qp, value in run_closure(ex, yes, body, [argv[1]]):
                    v = fresh("some")
                    qp.pc.append(disc(v) == 1)
                    qp.pc.append(proj(v, "Some.0") == value)
                    out.append((z3.And(qp.pc[len(p.pc):]), v, qp.trace[len(p.trace):]))
            return out
        if re.search(r"Result::<.*>::map_err::<", fn) and cm:
            body = closure_by_type(mir, cm[-1])
            out = []
            ok = p.clone()
            ok.pc.append(disc(argv[0]) == 0)
            if ex.feasible(ok):
                v = fresh("ok")
                out.append((z3.And(disc(argv[0]) == 0, disc(v) == 0, proj(v, "Ok.0") == proj(argv[0], "Ok.0")), v))
            er = p.clone()
            er.pc.append(disc(argv[0]) == 1)
            if ex.feasible(er):
                for qp, value in run_closure(ex, er, body, [argv[1], proj(argv[0], "Err.0")]):
                    v = fresh("err")
                    qp.pc.append(disc(v) == 1)
                    qp.pc.append(proj(v, "Err.0") == value)
                    out.append((z3.And(qp.pc[len(p.pc):]), v, qp.trace[len(p.trace):]))
            return out
        if re.search(r"Option::<.*>::unwrap_or_else::<", fn) and cm:
            body = closure_by_type(mir, cm[-1])
            out = []
            some = p.clone()
            some.pc.append(disc(argv[0]) == 1)
            if ex.feasible(some):
                out.append((disc(argv[0]) == 1, proj(argv[0], "Some.0")))
            none = p.clone()
            none.pc.append(disc(argv[0]) == 0)
            if ex.feasible(none):
                for qp, value in run_closure(ex, none, body, [argv[1]]):
                    out.append((z3.And(qp.pc[len(p.pc):]), value, qp.trace[len(p.trace):]))
            return out
        if re.search(r"Option::<.*>::take$", fn):
            p.trace.append(("take", argv[0]))
            return argv[0]
        return None
    return h


# -------------------------------------------------------------------------------------------------
# K16: Parser::new
# -------------------------------------------------------------------------------------------------

def k16_parser_new(mir, rep):
    fn = _find(mir, r"::new$", "-> Parser<R>")
    seen = {"return": 0, "panic": 0}
    Q = "K16.parser_new"

    def h(ex, p, name, argv, dst, dst_type, cur_fn):
        if re.search(r"MaybeUninit::<.*>::uninit$", name):
            return fresh("uninit")
        if re.search(r"^Box::<.*>::new$", name):
            b = fresh("box")
            p.pc.append(proj(b, "boxed") == argv[0])
            return b
        if re.search(r"^Box::<.*>::into_raw$", name):
            return proj(proj(argv[0], "f0"), "f0")
        if re.search(r"^Box::<.*>::from_raw$", name):
            b = fresh("rebox")
            p.pc.append(proj(proj(b, "f0"), "f0") == argv[0])
            return b
        if re.search(r"::as_mut_ptr$|::cast::<[^>]*>$", name):
            return argv[0]
        if re.search(r"^Vec::<u8>::new$", name):
            return fresh("emptyvec")
        m = re.search(r"(yaml_parser_\w+)$", name)
        if m:
            r = fresh(m.group(1))
            p.trace.append((m.group(1), list(argv), r))
            return r
        if re.search(r"panic_fmt$|panic$", name):
            p.trace.append(("panic",))
            raise X.Done("panic")
        return None
    ex = X.Exec(mir, h)
    reader = fresh("reader")

    def fin(p, how, value):
        calls = [e for e in p.trace if e[0].startswith("yaml_parser_")]
        names = [e[0] for e in calls]
        if how == "panic":
            seen["panic"] += 1
            # the only way not to return a parser: initialisation failed, and nothing was done with the parser afterwards
            ok = names == ["yaml_parser_initialize"] and ex.valid(p, asint(proj(calls[0][2], "f0")) == 0)[0]
            if not ok:
                rep.bad(Q, "Parser::new panics only when yaml_parser_initialize reports failure, before touching the parser again", {"kind": "yaml_parser", "calls": names})
            return
        if how != "return":
            if how != "dead":
                rep.bad(Q, "Parser::new returns a parser or panics on allocation failure", {"kind": "yaml_parser", "end": how})
            return
        seen["return"] += 1
        if names != ["yaml_parser_initialize", "yaml_parser_set_encoding", "yaml_parser_set_input"]:
            rep.bad(Q, "Parser::new initialises the parser, pins its encoding to UTF-8 (so libyaml's own BOM detection cannot shift "
                       "the event offsets the chunker slices by) and installs the read handler - in this order, once each",
                    {"kind": "yaml_parser", "calls": names})
            return
        init, enc, inp = calls
        utf8 = ex.aggregate(p, "YAML_UTF8_ENCODING")
        claims = [
            ("the result of yaml_parser_initialize is checked before the parser is used", asint(proj(init[2], "f0")) != 0),
            ("set_encoding is applied to the parser that was initialised", enc[1][0] == init[1][0]),
            ("the encoding is pinned to YAML_UTF8_ENCODING", enc[1][1] == utf8),
            ("set_input is applied to the same parser", inp[1][0] == init[1][0]),
            ("the returned Parser owns that parser", proj(proj(proj(value, "f0"), "f0"), "f0") == init[1][0]),
            ("the returned Parser's read state is the pointer handed to libyaml as callback data", proj(value, "f1") == inp[1][2]),
        ]
        for text, c in claims:
            if not ex.valid(p, c)[0]:
                rep.bad(Q, "Parser::new: " + text, {"kind": "yaml_parser", "calls": names})
        handler = getattr(inp[1][1], "mir_const", None) or str(inp[1][1])
        if "read_handler" not in str(handler):
            rep.bad(Q, "Parser::new installs Parser::read_handler as libyaml's input callback", {"kind": "yaml_parser", "handler": str(handler)})
        # the boxed read state holds the caller's reader and an empty error stash
        boxes = [c for c in p.pc if "boxed" in str(c)]
        st = None
        for c in p.pc:
            s = str(c)
            m = re.match(r"^proj_boxed\((box#\d+)\) == (struct#\d+)$", s)
            if m:
                cand = z3.Const(m.group(2), X.V)
                if ex.valid(p, proj(cand, "n_reader") == reader)[0]:
                    st = (z3.Const(m.group(1), X.V), cand)
        if st is None:
            rep.bad(Q, "Parser::new moves the caller's reader into the boxed read state", {"kind": "yaml_parser"})
        else:
            b, s = st
            if not ex.valid(p, z3.And(proj(proj(b, "f0"), "f0") == inp[1][2], disc(proj(s, "n_error")) == 0))[0]:
                rep.bad(Q, "Parser::new: the callback data is the box that holds the reader, and its error stash starts empty", {"kind": "yaml_parser"})
    ex.run(fn, X.Path(), [reader], fin)
    rep.absorb(ex)
    if seen["return"] < 1 or seen["panic"] < 1:
        raise Inconclusive("K16 vacuity: expected a returning and a panicking path of Parser::new, saw %r" % seen)
    rep.witnesses.append("Parser::new: %d returning path(s), %d panicking path(s)" % (seen["return"], seen["panic"]))
    rep.samples.append({"query": Q, "claim": "initialize -> checked -> set_encoding(YAML_UTF8_ENCODING) -> set_input(read_handler, boxed read state holding the reader); all on one parser object"})


def _find(mir, name_re, sig_part):
    c = [f for n, f in mir.functions.items() if re.search(name_re, n) and sig_part in f.sig]
    if len(c) != 1:
        raise Inconclusive("expected one function %s with %r in its signature, found %d" % (name_re, sig_part, len(c)))
    return c[0]


# -------------------------------------------------------------------------------------------------
# K17: ParserError::new, LocatedError::from_parts, Display
# -------------------------------------------------------------------------------------------------

def _fmt_handler(base=None):
    def h(ex, p, name, argv, dst, dst_type, cur_fn):
        if base:
            r = base(ex, p, name, argv, dst, dst_type, cur_fn)
            if r is not None:
                return r
        if re.search(r"Argument::<'_>::new_display::<", name):
            return pure_fn("display_of", 1)(argv[0])
        if re.search(r"Argument::<'_>::new_\w+::<", name):
            return pure_fn("otherfmt_of", 1)(argv[0])
        if re.search(r"^Arguments::<'_>::new::<", name):
            a = fresh("fmtargs")
            p.ghost = dict(p.ghost)
            p.ghost["fmt:" + str(a)] = (argv[0], argv[1])
            return a
        if re.search(r"^Arguments::<'_>::from_str$", name):
            a = fresh("fmtstr")
            p.ghost = dict(p.ghost)
            p.ghost["fmt:" + str(a)] = (argv[0], None)
            return a
        if re.search(r"Formatter::<'_>::write_fmt$", name):
            r = fresh("wrote")
            p.trace.append(("write_fmt", argv[0], p.ghost.get("fmt:" + str(argv[1])), r))
            return r
        if re.search(r"Formatter::<'_>::write_str$", name):
            r = fresh("wrote")
            p.trace.append(("write_str", argv[0], argv[1], r))
            return r
        return None
    return h


def _rendered(ex, p, me_fields):
    """-> list of pieces: literal strings and ('arg', name) for each write on the path; None if not expressible"""
    out = []
    for e in p.trace:
        if e[0] == "write_str":
            t = const_text(ex, e[2])
            if t is None:
                return None
            out.append(t)
        elif e[0] == "write_fmt":
            if e[2] is None:
                return None
            tmpl, arr = e[2]
            t = const_text(ex, tmpl)
            if t is None:
                return None
            if arr is None:
                out.append(t)
                continue
            k = 0
            for piece in decode_fmt(t):
                if piece is not None:
                    out.append(piece)
                    continue
                a = proj(arr, "a%d" % k)
                k += 1
                hit = None
                for nm, val in me_fields.items():
                    if ex.valid(p, a == pure_fn("display_of", 1)(val))[0]:
                        hit = nm
                        break
                if hit is None:
                    return None
                out.append(("arg", hit))
    return out


def k17_parser_error(mir, rep, srcdir):
    Q = "K17.parser_error"
    pfields = struct_fields(libyaml_src(), "yaml_parser_t")
    mfields = struct_fields(libyaml_src(), "yaml_mark_t")
    lfields = struct_fields(os.path.join(srcdir, "src/yaml/chunker/parser.rs"), "LocatedError")
    efields = struct_fields(os.path.join(srcdir, "src/yaml/chunker/parser.rs"), "ParserError")
    for need, have in ((("problem", "problem_offset", "problem_mark", "context", "context_mark"), pfields), (("index", "line", "column"), mfields),
                       (("description", "offset", "line", "column"), lfields), (("problem", "context"), efields)):
        for n in need:
            if n not in have:
                raise Inconclusive("field %s not found (have %r)" % (n, have))
    P = lambda v, n: proj(v, "f%d" % pfields.index(n))
    M = lambda v, n: proj(v, "f%d" % mfields.index(n))
    L = lambda v, n: proj(v, "f%d" % lfields.index(n))
    E = lambda v, n: proj(v, "f%d" % efields.index(n))

    # ---- (a) LocatedError::from_parts
    fp = _find(mir, r"::from_parts$", "-> LocatedError")
    ex = X.Exec(mir, None)
    d, mark, ov = fresh("description"), fresh("mark"), fresh("override")
    n = [0]

    def fin_fp(p, how, value):
        if how == "dead":
            return
        n[0] += 1
        idx = asint(M(mark, "index"))
        want_off = z3.If(idx > 0, idx, z3.If(disc(ov) == 1, asint(proj(ov, "Some.0")), 0))
        claims = [("the description is kept", L(value, "description") == d),
                  ("line = libyaml's 0-based line + 1", asint(L(value, "line")) == asint(M(mark, "line")) + 1),
                  ("column = libyaml's 0-based column + 1", asint(L(value, "column")) == asint(M(mark, "column")) + 1),
                  ("offset = the mark's byte index, or - for libyaml's reader errors, which leave the mark at zero - the explicit problem offset", asint(L(value, "offset")) == want_off)]
        if how != "return":
            rep.bad(Q, "LocatedError::from_parts returns", {"kind": "yaml_error"})
            return
        for text, c in claims:
            if not ex.valid(p, c)[0]:
                rep.bad(Q, "LocatedError::from_parts: " + text, {"kind": "yaml_error"})
    p0 = X.Path()
    p0.pc += [z3.Or(disc(ov) == 0, disc(ov) == 1), asint(M(mark, "index")) >= 0, asint(M(mark, "line")) >= 0, asint(M(mark, "column")) >= 0]
    ex.run(fp, p0, [d, mark, ov], fin_fp)
    rep.absorb(ex)
    if n[0] < 2:
        raise Inconclusive("K17 vacuity: from_parts explored %d paths" % n[0])

    # ---- (b) ParserError::new
    new = _find(mir, r"::new$", "-> ParserError")
    comb = combinators(mir)

    def h(ex, p, name, argv, dst, dst_type, cur_fn):
        if re.search(r"::cast::<[^>]*>$", name):
            return argv[0]
        if re.search(r"::is_null$", name):
            r = fresh("is_null")
            p.pc.append(asint(r) == z3.If(asint(pure_fn("nullness", 1)(argv[0])) != 0, 1, 0))
            return r
        if re.search(r"CStr::from_ptr", name):
            return pure_fn("cstr", 1)(argv[0])
        if re.search(r"to_string_lossy$", name):
            return pure_fn("lossy", 1)(argv[0])
        if re.search(r"Cow::<.*>::into_owned$", name):
            return argv[0]
        return comb(ex, p, name, argv, dst, dst_type, cur_fn)
    ex = X.Exec(mir, h)
    ex.inline = {r"from_parts$", r"try_cstr_into_string$"}
    ps = fresh("yaml_parser")
    shapes = set()

    def text_of(ptr):
        return pure_fn("lossy", 1)(pure_fn("cstr", 1)(ptr))

    def isnull(ptr):
        return asint(pure_fn("nullness", 1)(ptr)) != 0

    def fin_new(p, how, value):
        if how == "dead":
            return
        if how != "return":
            rep.bad(Q, "ParserError::new returns", {"kind": "yaml_error"})
            return
        for which, ptr_f, mark_f, fallback in (("problem", "problem", "problem_mark", asint(P(ps, "problem_offset"))), ("context", "context", "context_mark", z3.IntVal(0))):
            o = E(value, which)
            ptr = P(ps, ptr_f)
            mk = P(ps, mark_f)
            if not ex.valid(p, disc(o) == z3.If(isnull(ptr), 0, 1))[0]:
                rep.bad(Q, "ParserError::new: `%s` is present exactly when libyaml set parser.%s" % (which, ptr_f), {"kind": "yaml_error"})
                continue
            q = p.clone()
            q.pc.append(disc(o) == 1)
            if not ex.feasible(q):
                shapes.add((which, "none"))
                continue
            shapes.add((which, "some"))
            le = proj(o, "Some.0")
            idx = asint(M(mk, "index"))
            claims = [("text is libyaml's parser.%s string" % ptr_f, L(le, "description") == text_of(ptr)),
                      ("line is parser.%s.line + 1" % mark_f, asint(L(le, "line")) == asint(M(mk, "line")) + 1),
                      ("column is parser.%s.column + 1" % mark_f, asint(L(le, "column")) == asint(M(mk, "column")) + 1),
                      ("byte offset is parser.%s.index, or %s when libyaml left the mark at zero (reader errors)" % (mark_f, "parser.problem_offset" if which == "problem" else "0"),
                       asint(L(le, "offset")) == z3.If(idx > 0, idx, fallback))]
            for text, c in claims:
                if not ex.valid(q, c)[0]:
                    rep.bad(Q, "ParserError::new: the %s's %s" % (which, text), {"kind": "yaml_error"})
    ex.run(new, X.Path(), [ps], fin_new)
    rep.absorb(ex)
    for need in (("problem", "some"), ("problem", "none"), ("context", "some"), ("context", "none")):
        if need not in shapes:
            raise Inconclusive("K17 vacuity: ParserError::new never produced %r" % (need,))

    # ---- (c) Display for LocatedError and ParserError
    def display_fn(ty):
        c = [f for nme, f in mir.functions.items() if nme.endswith("::fmt") and ("_1: &%s," % ty) in f.sig and _is_display(mir, f, ty)]
        if len(c) != 1:
            raise Inconclusive("Display::fmt for %s: %d candidates" % (ty, len(c)))
        return c[0]
    fh = _fmt_handler()
    # LocatedError
    f = display_fn("LocatedError")
    ex = X.Exec(mir, fh)
    me, fm = fresh("located"), fresh("formatter")
    fields = {nme: L(me, nme) for nme in lfields}
    got = {}

    def fin_le(p, how, value):
        if how == "dead":
            return
        r = _rendered(ex, p, fields)
        first = ex.valid(p, z3.And(asint(fields["line"]) == 1, asint(fields["column"]) == 1))[0]
        notfirst = ex.valid(p, z3.Not(z3.And(asint(fields["line"]) == 1, asint(fields["column"]) == 1)))[0]
        wr = [e for e in p.trace if e[0] in ("write_fmt", "write_str")]
        passed = how == "return" and len(wr) == 1 and ex.valid(p, z3.And(value == wr[0][3], wr[0][1] == fm))[0]
        want = None
        if first:
            want = [("arg", "description"), " at position ", ("arg", "offset")]
        elif notfirst:
            want = [("arg", "description"), " at line ", ("arg", "line"), " column ", ("arg", "column")]
        got[(first, notfirst)] = r
        if want is None or r != want or not passed:
            rep.bad(Q, "a located error prints as '<libyaml's text> at line L column C' (or '... at position <byte offset>' when libyaml gave no line/column, i.e. line 1 column 1), nothing else", {"kind": "yaml_error", "rendered": repr(r)})
    ex.run(f, X.Path(), [me, fm], fin_le)
    rep.absorb(ex)
    if len(got) < 2:
        raise Inconclusive("K17 vacuity: Display for LocatedError explored %d shapes" % len(got))
    # ParserError
    f = display_fn("ParserError")
    ex = X.Exec(mir, fh)
    me, fm = fresh("perr"), fresh("formatter")
    got2 = {}

    def fin_pe(p, how, value):
        if how == "dead":
            return
        pr, cx = E(me, "problem"), E(me, "context")
        # the Display argument is `&&LocatedError`; references are transparent in the executor
        fields = {"problem": proj(pr, "Some.0"), "context": proj(cx, "Some.0")}
        r = _rendered(ex, p, fields)
        hp = ex.valid(p, disc(pr) == 1)[0]
        np_ = ex.valid(p, disc(pr) == 0)[0]
        hc = ex.valid(p, disc(cx) == 1)[0]
        nc = ex.valid(p, disc(cx) == 0)[0]
        wr = [e for e in p.trace if e[0] in ("write_fmt", "write_str")]
        passed = how == "return" and len(wr) == 1 and ex.valid(p, z3.And(value == wr[0][3], wr[0][1] == fm))[0]
        if np_:
            want, key = ["unknown libyaml error"], "none"
        elif hp and nc:
            want, key = [("arg", "problem")], "problem"
        elif hp and hc:
            want, key = [("arg", "problem"), ", ", ("arg", "context")], "both"
        else:
            want, key = None, "split:%s%s%s%s" % (hp, np_, hc, nc)
        if key in got2:
            key = key + "+dup"
        got2[key] = r
        if want is None or r != want or not passed:
            rep.bad(Q, "a parser error prints as '<problem with its location>[, <context with its location>]' - the shape depends only on which parts libyaml supplied", {"kind": "yaml_error", "rendered": repr(r), "case": key})
    ex.run(f, X.Path(), [me, fm], fin_pe)
    rep.absorb(ex)
    if set(got2) != {"none", "problem", "both"}:
        if not any(v[0] == Q for v in rep.violations):
            rep.bad(Q, "Display for ParserError has exactly the three cases none / problem / problem+context", {"kind": "yaml_error", "cases": sorted(got2)})
    rep.witnesses.append("ParserError: from_parts %d paths, new shapes %s, Display cases %s / %s" % (n[0], sorted(shapes), sorted(map(str, got)), sorted(got2)))
    rep.samples.append({"query": Q, "claim": "error text of a malformed YAML stream = libyaml's problem (+ context) strings, each with line+1/column+1 or the byte offset; layouts of yaml_parser_t/yaml_mark_t read from unsafe-libyaml's sources"})


def _is_display(mir, f, ty):
    # derive(Debug) also produces an fmt(&T, &mut Formatter); it calls debug_struct_* helpers
    body = "\n".join("\n".join(b) for b in f.blocks.values())
    return "debug_struct" not in body and "debug_tuple" not in body and "Debug" not in body


# -------------------------------------------------------------------------------------------------
# K18: Parser::next_event
# -------------------------------------------------------------------------------------------------

def k18_next_event(mir, rep, srcdir):
    Q = "K18.next_event"
    rfields = struct_fields(os.path.join(srcdir, "src/yaml/chunker/parser.rs"), "ReadState")
    pfields = struct_fields(os.path.join(srcdir, "src/yaml/chunker/parser.rs"), "Parser")
    if "error" not in rfields or "read_state" not in pfields or "parser" not in pfields:
        raise Inconclusive("ReadState/Parser fields not found: %r %r" % (rfields, pfields))
    fn = _find(mir, r"::next_event$", "-> std::result::Result<Event, std::io::Error>")
    comb = combinators(mir)

    def h(ex, p, name, argv, dst, dst_type, cur_fn):
        if re.search(r"Event::parse_next$", name):
            r = fresh("parsed")
            p.pc.append(z3.Or(disc(r) == 0, disc(r) == 1))
            p.trace.append(("parse_next", argv[0], r))
            return r
        if re.search(r"io::Error::new::<", name):
            r = fresh("ioerr")
            p.trace.append(("io_error_new", argv[0], argv[1], r))
            return r
        return comb(ex, p, name, argv, dst, dst_type, cur_fn)
    ex = X.Exec(mir, h)
    ex.inline = {r"read_state_mut$"}
    me = fresh("parser")
    stash = proj(proj(me, "f%d" % pfields.index("read_state")), "f%d" % rfields.index("error"))
    seen = set()
    invalid_data = [None]

    def fin(p, how, value):
        if how == "dead":
            return
        if how != "return":
            rep.bad(Q, "next_event returns", {"kind": "yaml_error"})
            return
        pn = [e for e in p.trace if e[0] == "parse_next"]
        if len(pn) != 1 or not ex.valid(p, proj(proj(proj(proj(me, "f%d" % pfields.index("parser")), "f0"), "f0"), "f0") == pn[0][1])[0] and \
                not ex.valid(p, proj(proj(proj(me, "f%d" % pfields.index("parser")), "f0"), "f0") == pn[0][1])[0]:
            rep.bad(Q, "next_event asks libyaml for exactly one event, on the parser it owns", {"kind": "yaml_error"})
            return
        res = pn[0][2]
        takes = [e for e in p.trace if e[0] == "take"]
        news = [e for e in p.trace if e[0] == "io_error_new"]
        if ex.valid(p, disc(res) == 0)[0]:
            seen.add("ok")
            if not ex.valid(p, z3.And(disc(value) == 0, proj(value, "Ok.0") == proj(res, "Ok.0")))[0] or takes or news:
                rep.bad(Q, "a parsed event is handed on unchanged and the error stash is left alone", {"kind": "yaml_error"})
            return
        if not ex.valid(p, disc(res) == 1)[0]:
            rep.bad(Q, "next_event distinguishes success from failure of parse_next", {"kind": "yaml_error"})
            return
        if len(takes) != 1 or not ex.valid(p, takes[0][1] == stash)[0]:
            rep.bad(Q, "on a parse failure next_event takes the io::Error the read handler stashed out of the read state (once)", {"kind": "yaml_error"})
            return
        if ex.valid(p, disc(stash) == 1)[0]:
            seen.add("stashed")
            if not ex.valid(p, z3.And(disc(value) == 1, proj(value, "Err.0") == proj(stash, "Some.0")))[0] or news:
                rep.bad(Q, "when the input reader failed, next_event returns the reader's own io::Error (kind and text preserved), not libyaml's 'input error'", {"kind": "yaml_error"})
        elif ex.valid(p, disc(stash) == 0)[0]:
            seen.add("syntax")
            ok = len(news) == 1 and ex.valid(p, z3.And(disc(value) == 1, proj(value, "Err.0") == news[0][3], news[0][2] == proj(res, "Err.0")))[0]
            kind = getattr(news[0][1], "mir_const", None) if news else None
            if ok:
                idv = ex.aggregate(p, "InvalidData")
                ok = ex.valid(p, news[0][1] == idv)[0]
            if not ok:
                rep.bad(Q, "a syntax error becomes io::Error::new(InvalidData, <the ParserError libyaml reported>)", {"kind": "yaml_error"})
        else:
            rep.bad(Q, "next_event decides on whether an io::Error is stashed", {"kind": "yaml_error"})
    p0 = X.Path()
    p0.pc.append(z3.Or(disc(stash) == 0, disc(stash) == 1))
    ex.run(fn, p0, [me], fin)
    rep.absorb(ex)
    if seen != {"ok", "stashed", "syntax"}:
        raise Inconclusive("K18 vacuity: outcomes seen %r" % sorted(seen))
    rep.witnesses.append("next_event: outcomes %s" % sorted(seen))
    rep.samples.append({"query": Q, "claim": "Ok passes through; Err -> the stashed reader error if any (taken from ReadState.error), else io::Error::new(InvalidData, ParserError)"})


# -------------------------------------------------------------------------------------------------
# K19: init/delete pairing
# -------------------------------------------------------------------------------------------------

def k19_pairing(mir, rep, srcdir):
    Q = "K19.pairing"
    pfields = struct_fields(os.path.join(srcdir, "src/yaml/chunker/parser.rs"), "Parser")

    def h(ex, p, name, argv, dst, dst_type, cur_fn):
        if re.search(r"MaybeUninit::<.*>::uninit$", name):
            return fresh("uninit")
        if re.search(r"::as_mut_ptr$|::cast::<[^>]*>$", name):
            return argv[0]
        if re.search(r"MaybeUninit::<.*>::assume_init$", name):
            p.trace.append(("assume_init", argv[0]))
            return pure_fn("inited", 1)(argv[0])
        m = re.search(r"(yaml_parser_parse|yaml_parser_delete|yaml_event_delete)$", name)
        if m:
            r = fresh(m.group(1))
            p.trace.append((m.group(1), list(argv), r))
            return r
        if re.search(r"ParserError::new$", name):
            r = fresh("perr")
            p.trace.append(("parser_error_new", argv[0], r))
            return r
        if re.search(r"^Box::<.*>::from_raw$", name):
            b = fresh("rebox")
            p.trace.append(("from_raw", argv[0], b))
            return b
        if re.search(r"^std::mem::drop::<", name):
            p.trace.append(("drop", argv[0]))
            return fresh("unit")
        return None
    # parse_next
    fn = _find(mir, r"::parse_next$", "-> std::result::Result<Event, ParserError>")
    ex = X.Exec(mir, h)
    ps = fresh("yaml_parser")
    seen = set()

    def fin(p, how, value):
        if how == "dead":
            return
        calls = [e for e in p.trace if e[0] == "yaml_parser_parse"]
        ai = [e for e in p.trace if e[0] == "assume_init"]
        pe = [e for e in p.trace if e[0] == "parser_error_new"]
        if how != "return" or len(calls) != 1 or not ex.valid(p, calls[0][1][0] == ps)[0]:
            rep.bad(Q, "parse_next calls yaml_parser_parse once on the given parser", {"kind": "yaml_pairing"})
            return
        ok = asint(proj(calls[0][2], "f0")) != 0
        if ex.valid(p, ok)[0]:
            seen.add("ok")
            good = len(ai) == 1 and not pe and ex.valid(p, z3.And(ai[0][1] == calls[0][1][1], disc(value) == 0, proj(proj(value, "Ok.0"), "Event.0") == pure_fn("inited", 1)(ai[0][1])))[0]
            if not good:
                # tuple struct Event(ev): accept the f0 projection as well
                good = len(ai) == 1 and not pe and ex.valid(p, z3.And(ai[0][1] == calls[0][1][1], disc(value) == 0, proj(proj(value, "Ok.0"), "f0") == pure_fn("inited", 1)(ai[0][1])))[0]
            if not good:
                rep.bad(Q, "on success parse_next wraps exactly the event buffer libyaml filled (assume_init on that buffer, once)", {"kind": "yaml_pairing"})
        elif ex.valid(p, z3.Not(ok))[0]:
            seen.add("fail")
            good = not ai and len(pe) == 1 and ex.valid(p, z3.And(pe[0][1] == ps, disc(value) == 1, proj(value, "Err.0") == pe[0][2]))[0]
            if not good:
                rep.bad(Q, "on failure parse_next never treats the event buffer as initialised (no Event is built, so none is deleted) and reports ParserError::new of the same parser", {"kind": "yaml_pairing"})
        else:
            rep.bad(Q, "parse_next branches on libyaml's success flag", {"kind": "yaml_pairing"})
    ex.run(fn, X.Path(), [ps], fin)
    rep.absorb(ex)
    if seen != {"ok", "fail"}:
        raise Inconclusive("K19 vacuity: parse_next outcomes %r" % sorted(seen))
    # Event::drop
    fn = _find(mir, r"::drop$", "_1: &mut Event")
    ex = X.Exec(mir, h)
    ev = fresh("event")
    cnt = [0]

    def fin_ed(p, how, value):
        if how == "dead":
            return
        cnt[0] += 1
        dl = [e for e in p.trace if e[0] == "yaml_event_delete"]
        if how != "return" or len(dl) != 1 or len([e for e in p.trace if e[0].startswith("yaml_")]) != 1 or \
                not (ex.valid(p, dl[0][1][0] == proj(ev, "f0"))[0]):
            rep.bad(Q, "dropping an Event deletes its own yaml_event_t exactly once", {"kind": "yaml_pairing"})
    ex.run(fn, X.Path(), [ev], fin_ed)
    rep.absorb(ex)
    # Parser::drop
    fn = _find(mir, r"::drop$", "_1: &mut Parser<R>")
    ex = X.Exec(mir, h)
    me = fresh("parser")

    def fin_pd(p, how, value):
        if how == "dead":
            return
        cnt[0] += 1
        ev_ = [e for e in p.trace if e[0] in ("yaml_parser_delete", "from_raw", "drop")]
        names = [e[0] for e in ev_]
        if how != "return" or names != ["yaml_parser_delete", "from_raw", "drop"]:
            rep.bad(Q, "dropping a Parser deletes the libyaml parser first and then frees the read state, each exactly once", {"kind": "yaml_pairing", "calls": names})
            return
        own = proj(proj(proj(me, "f%d" % pfields.index("parser")), "f0"), "f0")
        rs = proj(me, "f%d" % pfields.index("read_state"))
        if not ex.valid(p, z3.And(ev_[0][1][0] == own, ev_[1][1] == rs, ev_[2][1] == ev_[1][2]))[0]:
            rep.bad(Q, "Parser::drop releases its own parser and its own read state (the box rebuilt from the raw pointer is the one dropped)", {"kind": "yaml_pairing"})
    ex.run(fn, X.Path(), [me], fin_pd)
    rep.absorb(ex)
    if cnt[0] < 2:
        raise Inconclusive("K19 vacuity: drop glue paths %d" % cnt[0])
    rep.witnesses.append("pairing: parse_next %s, Event::drop + Parser::drop %d paths" % (sorted(seen), cnt[0]))
    rep.samples.append({"query": Q, "claim": "Event exists iff yaml_parser_parse succeeded; yaml_event_delete once per Event; yaml_parser_delete then Box::from_raw(read_state) dropped, once each"})


# -------------------------------------------------------------------------------------------------
# K21: the rewindable input handle's glue (src/input.rs) behind Box<dyn Read>
# -------------------------------------------------------------------------------------------------

def k21_handle_glue(mir, rep, srcdir):
    """Handle::borrow_mut, From<Handle> for Input, TryFrom<Handle> for Cow, Ref::prefix and the guard's two accessors:
    every borrow and every hand-over starts with a rewind; what is handed over is exactly (captured bytes, then the source)"""
    Q = "K21.handle"
    src_rs = os.path.join(srcdir, "src/input.rs")
    X.load_enums(src_rs)
    cf = struct_fields(src_rs, "CaptureReader")
    if sorted(cf) != ["prefix", "source", "source_eof"]:
        raise Inconclusive("CaptureReader fields %r" % cf)
    PRE, SRC, EOF = ("f%d" % cf.index(n) for n in ("prefix", "source", "source_eof"))
    for k, v in (("Cow::Borrowed", 0), ("Cow::Owned", 1), ("Borrowed", 0), ("Owned", 1)):
        X.VARIANTS.setdefault(k, v)
    for need in ("Input::Slice", "Input::Reader", "Ref::Slice", "Ref::Reader", "Source::Slice", "Source::Reader"):
        if need not in X.VARIANTS:
            raise Inconclusive("enum variant %s not loaded" % need)
    V_ = X.VARIANTS
    captured = pure_fn("captured_after", 2)

    def mk_handler():
        def h(ex, p, name, argv, dst, dst_type, cur_fn):
            if name == "drop":
                return None
            if re.search(r"Cursor::<Vec<u8>>::set_position$", name):
                new = fresh("cursor")
                p.pc += [proj(new, "pos") == argv[1], proj(new, "buf") == proj(argv[0], "buf")]
                tgt = ex.ref_target(p, cur_fn, ex.raw_args[0])
                if tgt is None:
                    raise Inconclusive("K21: set_position through an untracked reference")
                ex.assign(p, tgt, new)
                p.trace.append(("set_position", argv[1]))
                return fresh("unit")
            if re.search(r"Cursor::<Vec<u8>>::(get_ref|into_inner)$", name):
                return proj(argv[0], "buf")
            if re.search(r"Cursor::<Vec<u8>>::new$", name):
                c = fresh("cursor")
                p.pc += [asint(proj(c, "pos")) == 0, proj(c, "buf") == argv[0]]
                return c
            if re.search(r"^Vec::<u8>::new$", name):
                return fresh("emptyvec")
            if re.search(r"^Vec::<u8>::is_empty$", name):
                r = fresh("isempty")
                p.pc.append(asint(r) == z3.If(asint(pure_fn("vec_is_empty", 1)(argv[0])) != 0, 1, 0))
                return r
            if re.search(r"capture_(to_end|up_to_size)$", name):
                r = fresh("captured")
                p.pc.append(z3.Or(disc(r) == 0, disc(r) == 1))
                n = len([t for t in p.trace if t[0] == "capture"])
                p.trace.append(("capture", re.search(r"capture_(\w+)$", name).group(1), list(argv), r, n))
                p.ghost = dict(p.ghost)
                p.ghost["captures"] = n + 1
                return r
            if re.search(r"CaptureReader::<.*>::captured$", name) and p.ghost.get("captures"):
                # after a capture step the buffer is what that step left behind
                return captured(argv[0], ex.intv(p.ghost["captures"]))
            if re.search(r"io::Read>::chain::<", name):
                c = fresh("chain")
                p.pc += [proj(c, "first") == argv[0], proj(c, "second") == argv[1]]
                return c
            if re.search(r"^Box::<.*>::new$", name):
                return argv[0]
            if re.search(r"^FusedReader::<.*>::new$", name):
                f = fresh("fused")
                p.pc += [disc(proj(f, "f0")) == 1, proj(proj(f, "f0"), "Some.0") == argv[0]]
                p.trace.append(("fused_new",))
                return f
            if re.search(r"\(PointerCoercion\(Unsize", name):
                return argv[0]
            return None
        return h

    inl = {r"rewind_and_borrow_mut$", r"rewind_and_take$", r"CaptureReader::<.*>::rewind$", r"CaptureReader::<.*>::captured$", r"is_source_eof$",
           r"CaptureReader::<.*>::into_inner$"}
    seen = set()

    def symbolic_handle(p, kind):
        hd, srcv, b, g, cr, cur = fresh("handle"), fresh("source"), fresh("bytes"), fresh("guard"), fresh("capture"), fresh("cursor0")
        p.pc.append(proj(hd, "f0") == srcv)
        if kind == "slice":
            p.pc += [disc(srcv) == V_["Source::Slice"], proj(srcv, "Slice.0") == b]
        else:
            p.pc += [disc(srcv) == V_["Source::Reader"], proj(srcv, "Reader.0") == g, proj(g, "f0") == cr, proj(cr, PRE) == cur,
                     z3.Or(asint(proj(cr, EOF)) == 0, asint(proj(cr, EOF)) == 1), asint(proj(cur, "pos")) >= 0]
        return hd, b, cr, cur

    # ---- borrow_mut
    fn = _find(mir, r"::borrow_mut$", "_1: &mut Handle<'_>")
    for kind in ("slice", "reader"):
        ex = X.Exec(mir, mk_handler())
        ex.inline = inl
        p0 = X.Path()
        hd, b, cr, cur = symbolic_handle(p0, kind)

        def fin(p, how, value, kind=kind, ex=ex, b=b, cr=cr, cur=cur):
            if how == "dead":
                return
            if how != "return":
                rep.bad(Q, "Handle::borrow_mut returns", {"kind": "handle"})
                return
            if kind == "slice":
                seen.add("borrow:slice")
                if p.trace or not ex.valid(p, z3.And(disc(value) == V_["Ref::Slice"], proj(value, "Slice.0") == b))[0]:
                    rep.bad(Q, "borrowing a slice handle yields the whole slice", {"kind": "handle"})
                return
            sp = [t for t in p.trace if t[0] == "set_position"]
            if len(sp) != 1 or not ex.valid(p, asint(sp[0][1]) == 0)[0]:
                rep.bad(Q, "every borrow of a reader handle rewinds the capture reader to position 0 first (detection trials must each see the stream from its first byte)", {"kind": "handle"})
                return
            if ex.valid(p, asint(proj(cr, EOF)) != 0)[0]:
                seen.add("borrow:eof")
                if not ex.valid(p, z3.And(disc(value) == V_["Ref::Slice"], proj(value, "Slice.0") == proj(cur, "buf")))[0]:
                    rep.bad(Q, "a reader whose source is exhausted is lent as the slice of everything captured", {"kind": "handle"})
            elif ex.valid(p, asint(proj(cr, EOF)) == 0)[0]:
                seen.add("borrow:reader")
                r = proj(value, "Reader.0")
                if not ex.valid(p, z3.And(disc(value) == V_["Ref::Reader"], asint(proj(proj(r, PRE), "pos")) == 0, proj(proj(r, PRE), "buf") == proj(cur, "buf"),
                                          proj(r, SRC) == proj(cr, SRC), proj(r, EOF) == proj(cr, EOF)))[0]:
                    rep.bad(Q, "a reader handle is lent as its own capture reader, rewound, with the captured bytes and the source untouched", {"kind": "handle"})
            else:
                rep.bad(Q, "borrow_mut decides on source_eof", {"kind": "handle"})
        ex.run(fn, p0, [hd], fin)
        rep.absorb(ex)

    # ---- From<Handle> for Input
    fn = _find(mir, r"::from$", "-> Input<'_>")
    for kind in ("slice", "reader"):
        ex = X.Exec(mir, mk_handler())
        ex.inline = inl
        p0 = X.Path()
        hd, b, cr, cur = symbolic_handle(p0, kind)

        def fin(p, how, value, kind=kind, ex=ex, b=b, cr=cr, cur=cur):
            if how == "dead":
                return
            if how != "return":
                rep.bad(Q, "From<Handle> for Input returns", {"kind": "handle"})
                return
            if kind == "slice":
                seen.add("into:slice")
                c = proj(value, "Slice.0")
                if p.trace or not ex.valid(p, z3.And(disc(value) == V_["Input::Slice"], disc(c) == 0, proj(c, "Borrowed.0") == b))[0]:
                    rep.bad(Q, "a slice handle becomes Input::Slice borrowing the same bytes", {"kind": "handle"})
                return
            sp = [t for t in p.trace if t[0] == "set_position"]
            if len(sp) != 1 or not ex.valid(p, asint(sp[0][1]) == 0)[0] or (p.trace and p.trace[0][0] != "set_position"):
                rep.bad(Q, "handing a reader handle over rewinds it first (whatever detection read is replayed to the translator)", {"kind": "handle"})
                return
            buf = proj(cur, "buf")
            empty = asint(pure_fn("vec_is_empty", 1)(buf)) != 0
            if ex.valid(p, asint(proj(cr, EOF)) != 0)[0]:
                seen.add("into:eof")
                c = proj(value, "Slice.0")
                if not ex.valid(p, z3.And(disc(value) == V_["Input::Slice"], disc(c) == 1, proj(c, "Owned.0") == buf))[0]:
                    rep.bad(Q, "an exhausted reader handle becomes Input::Slice owning everything that was captured", {"kind": "handle"})
            elif ex.valid(p, empty)[0]:
                seen.add("into:untouched")
                if not ex.valid(p, z3.And(disc(value) == V_["Input::Reader"], proj(value, "Reader.0") == proj(cr, SRC)))[0]:
                    rep.bad(Q, "a reader handle nothing was captured from is handed over as the original source", {"kind": "handle"})
            elif ex.valid(p, z3.Not(empty))[0]:
                seen.add("into:chain")
                ch = proj(value, "Reader.0")
                fused = proj(ch, "first")
                cu = proj(proj(fused, "f0"), "Some.0")
                if not ex.valid(p, z3.And(disc(value) == V_["Input::Reader"], proj(ch, "second") == proj(cr, SRC), disc(proj(fused, "f0")) == 1,
                                          proj(cu, "buf") == buf, asint(proj(cu, "pos")) == 0))[0]:
                    rep.bad(Q, "a partly captured reader handle is handed over as (captured bytes from position 0) chained before (the source): nothing lost, nothing repeated, in this order", {"kind": "handle"})
            else:
                rep.bad(Q, "From<Handle> decides on source_eof and on whether anything was captured", {"kind": "handle"})
        ex.run(fn, p0, [hd], fin)
        rep.absorb(ex)

    # ---- TryFrom<Handle> for Cow
    fn = _find(mir, r"::try_from$", "_1: Handle<'_>")
    for kind in ("slice", "reader"):
        ex = X.Exec(mir, mk_handler())
        ex.inline = inl
        p0 = X.Path()
        hd, b, cr, cur = symbolic_handle(p0, kind)

        def fin(p, how, value, kind=kind, ex=ex, b=b, cr=cr, cur=cur):
            if how == "dead":
                return
            if how != "return":
                rep.bad(Q, "TryFrom<Handle> for Cow returns", {"kind": "handle"})
                return
            if kind == "slice":
                seen.add("cow:slice")
                c = proj(value, "Ok.0")
                if p.trace or not ex.valid(p, z3.And(disc(value) == 0, disc(c) == 0, proj(c, "Borrowed.0") == b))[0]:
                    rep.bad(Q, "a slice handle becomes a borrowed Cow of the same bytes", {"kind": "handle"})
                return
            ev = [t for t in p.trace if t[0] in ("set_position", "capture")]  # (fused_new is not an event of this function)
            if [t[0] for t in ev] != ["set_position", "capture"] or ev[1][1] != "to_end" or not ex.valid(p, asint(ev[0][1]) == 0)[0]:
                rep.bad(Q, "collecting a reader handle rewinds it, then captures the source to its end (once)", {"kind": "handle", "events": [t[0] for t in ev]})
                return
            r = ev[1][3]
            if ex.valid(p, disc(r) == 1)[0]:
                seen.add("cow:err")
                if not ex.valid(p, z3.And(disc(value) == 1, proj(value, "Err.0") == proj(r, "Err.0")))[0]:
                    rep.bad(Q, "a source error while collecting is returned as it is", {"kind": "handle"})
            else:
                seen.add("cow:ok")
                if not ex.valid(p, z3.And(disc(value) == 0, disc(proj(value, "Ok.0")) == 1))[0]:
                    rep.bad(Q, "a collected reader handle becomes an owned Cow", {"kind": "handle"})
        ex.run(fn, p0, [hd], fin)
        rep.absorb(ex)

    # ---- Ref::prefix
    fn = _find(mir, r"::prefix$", "_1: &mut input::Ref<'_, '_>")
    for kind in ("slice", "reader"):
        ex = X.Exec(mir, mk_handler())
        ex.inline = inl
        p0 = X.Path()
        rf, b, cr, hint = fresh("ref"), fresh("bytes"), fresh("capture"), fresh("hint")
        if kind == "slice":
            p0.pc += [disc(rf) == V_["Ref::Slice"], proj(rf, "Slice.0") == b]
        else:
            p0.pc += [disc(rf) == V_["Ref::Reader"], proj(rf, "Reader.0") == cr]

        def fin(p, how, value, kind=kind, ex=ex, b=b, cr=cr, hint=hint):
            if how == "dead":
                return
            if how != "return":
                rep.bad(Q, "Ref::prefix returns", {"kind": "handle"})
                return
            caps = [t for t in p.trace if t[0] == "capture"]
            if kind == "slice":
                seen.add("prefix:slice")
                if caps or not ex.valid(p, z3.And(disc(value) == 0, proj(value, "Ok.0") == b))[0]:
                    rep.bad(Q, "the prefix of a slice is the whole slice", {"kind": "handle"})
                return
            if len(caps) != 1 or caps[0][1] != "up_to_size" or not ex.valid(p, z3.And(caps[0][2][0] == cr, caps[0][2][1] == hint))[0]:
                rep.bad(Q, "the prefix of a reader captures up to exactly the requested size, once", {"kind": "handle"})
                return
            r = caps[0][3]
            if ex.valid(p, disc(r) == 1)[0]:
                seen.add("prefix:err")
                if not ex.valid(p, z3.And(disc(value) == 1, proj(value, "Err.0") == proj(r, "Err.0")))[0]:
                    rep.bad(Q, "a source error while capturing the prefix is returned as it is (it is the input's own I/O error)", {"kind": "handle"})
            else:
                seen.add("prefix:ok")
                if not ex.valid(p, z3.And(disc(value) == 0, proj(value, "Ok.0") == captured(cr, ex.intv(1))))[0]:
                    rep.bad(Q, "the prefix handed out is what the capture step left in the buffer (read after the capture, from the same reader)", {"kind": "handle"})
        ex.run(fn, p0, [rf, hint], fin)
        rep.absorb(ex)

    need = {"borrow:slice", "borrow:eof", "borrow:reader", "into:slice", "into:eof", "into:untouched", "into:chain", "cow:slice", "cow:err", "cow:ok",
            "prefix:slice", "prefix:err", "prefix:ok"}
    if seen != need and not any(v[0] == Q for v in rep.violations):
        raise Inconclusive("K21 vacuity: outcomes not reached: %r" % sorted(need - seen))
    rep.witnesses.append("handle glue: %s" % sorted(seen))
    rep.samples.append({"query": Q, "claim": "borrow_mut / From<Handle> for Input / TryFrom<Handle> for Cow / Ref::prefix over Box<dyn Read>: rewind before every use, "
                        "captured bytes (from 0) chained before the source, source errors passed through"})


# -------------------------------------------------------------------------------------------------
# K13b: the JSON and MessagePack trials look at the FIRST value only, for slices and readers alike
# -------------------------------------------------------------------------------------------------

def k13b_first_value_only(mir, rep):
    """json::match_input_{str,reader} and msgpack::match_input_{buffer,reader}: build one deserializer over the given input,
    deserialize exactly one IgnoredAny from it and report exactly that outcome - so that a slice and a reader holding
    the same bytes are judged on the same thing (C09: detected as the same format from a slice and from a reader)."""
    Q = "K13.first_value"
    fns = [f for n, f in mir.functions.items() if re.search(r"(^|::)match_input_(str|buffer|reader)$", n)]
    if len(fns) != 4:
        raise Inconclusive("expected 4 match_input_* functions, found %d" % len(fns))
    done = 0
    for fn in fns:
        is_mp = "rmp_serde" in fn.sig

        def h(ex, p, name, argv, dst, dst_type, cur_fn):
            if name == "drop":
                return None
            if re.search(r"Deserializer::<.*>::(from_str|from_reader|from_read_ref|new)$", name):
                d = fresh("deserializer")
                p.trace.append(("new_de", argv[0], d))
                return d
            if re.search(r"set_max_depth$", name):
                p.trace.append(("max_depth", argv[0], argv[1]))
                return fresh("unit")
            if re.search(r"<IgnoredAny as Deserialize<'_>>::deserialize::<", name):
                r = fresh("first_value")
                p.pc.append(z3.Or(disc(r) == 0, disc(r) == 1))
                p.trace.append(("deserialize", argv[0], r))
                return r
            if re.search(r"Result::<IgnoredAny, .*>::and::<\(\)>$", name):
                r = fresh("anded")
                p.pc.append(disc(r) == z3.If(disc(argv[0]) == 0, disc(argv[1]), 1))
                p.pc.append(z3.Implies(disc(argv[0]) == 1, proj(r, "Err.0") == proj(argv[0], "Err.0")))
                return r
            if re.search(r"Deserializer|StreamDeserializer|into_iter|::end$|try_for_each|Iterator", name):
                p.trace.append(("other_use", re.sub(r"<.*", "", name)[:60]))
                return None
            return None
        ex = X.Exec(mir, h)
        inp = fresh("input")

        def fin(p, how, value, fn=fn, ex=ex, inp=inp, is_mp=is_mp):
            if how == "dead":
                return
            news = [t for t in p.trace if t[0] == "new_de"]
            des = [t for t in p.trace if t[0] == "deserialize"]
            other = [t for t in p.trace if t[0] == "other_use"]
            short = fn.name.split("::")[-1]
            w = {"kind": "trial", "fn": fn.name}
            if how != "return" or len(news) != 1 or len(des) != 1 or other or not ex.valid(p, z3.And(news[0][1] == inp, des[0][1] == news[0][2]))[0]:
                rep.bad(Q, "%s (%s) builds one deserializer over its input and takes exactly ONE value from it: detection judges the first value only, "
                           "for a slice exactly as for a reader" % (short, "MessagePack" if is_mp else "JSON"), dict(w, uses=[t[1] for t in other]))
                return
            r = des[0][2]
            if not ex.valid(p, z3.And(disc(value) == disc(r), z3.Implies(disc(r) == 1, proj(value, "Err.0") == proj(r, "Err.0"))))[0]:
                rep.bad(Q, "%s reports exactly the outcome of that one value" % short, w)
            if is_mp:
                md = [t for t in p.trace if t[0] == "max_depth"]
                if len(md) != 1 or not ex.valid(p, md[0][1] == news[0][2])[0] or "DEPTH_LIMIT" not in str(getattr(md[0][2], "mir_const", "")) and not ex.valid(p, asint(md[0][2]) == 1024)[0]:
                    rep.bad(Q, "%s applies DEPTH_LIMIT to the deserializer it uses" % short, w)
        ex.run(fn, X.Path(), [inp], fin)
        rep.absorb(ex)
        done += 1
    rep.witnesses.append("first-value trials: %d functions" % done)
    rep.samples.append({"query": Q, "claim": "json/msgpack match_input_{str,buffer,reader}: one deserializer, one IgnoredAny, that outcome"})
