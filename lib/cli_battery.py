#!/usr/bin/env python3
"""Native CLI scenarios used to replay E3 (MIR) counterexamples against the real binary.

Each group states, for concrete command lines and files, what properties C13-C16 demand, using
only the binary itself as its own reference where outputs are compared (e.g. `xt a.json b.toml`
must equal `xt -f json a.json` followed by `xt -f toml b.toml`). A group returns a list of
human-readable mismatches; an empty list means "not reproduced".
"""
import itertools
import os
import subprocess
import tempfile

NAMES = {"j": "json", "json": "json", "m": "msgpack", "msgpack": "msgpack", "t": "toml", "toml": "toml", "y": "yaml", "yaml": "yaml"}
CONTENT = {
    "json": b'{"a":1,"b":[true,null]}\n',
    "yaml": b"a: 1\nb:\n- true\n- null\n",
    "toml": b'a = 1\nb = "x"\n',
    "msgpack": bytes([0x82, 0xa1, 0x61, 0x01, 0xa1, 0x62, 0x92, 0xc3, 0xc0]),
}


class Cli:
    def __init__(self, binary):
        self.bin = binary
        self.dir = tempfile.mkdtemp(prefix="xt-battery.")
        for fmt, data in CONTENT.items():
            for ext in (fmt, fmt.upper()):
                open(os.path.join(self.dir, "doc." + ext), "wb").write(data)
        open(os.path.join(self.dir, "doc.yml"), "wb").write(CONTENT["yaml"])
        open(os.path.join(self.dir, "noext"), "wb").write(CONTENT["json"])
        open(os.path.join(self.dir, "lies.json"), "wb").write(CONTENT["toml"])
        open(os.path.join(self.dir, "archive.tar.yaml"), "wb").write(CONTENT["yaml"])
        open(os.path.join(self.dir, "bad.json"), "wb").write(b'{"a":')
        open(os.path.join(self.dir, "small.json"), "wb").write(b'{"small":1}\n')
        big = b"[" + b",".join(b'"%05d-some-padding-text"' % i for i in range(3000)) + b"]\n"
        open(os.path.join(self.dir, "big.json"), "wb").write(big)

    def run(self, args, stdin=b"", stdout=None, timeout=20):
        p = subprocess.run([self.bin] + args, input=stdin, stdout=stdout or subprocess.PIPE, stderr=subprocess.PIPE, cwd=self.dir, timeout=timeout)
        return p.returncode, (p.stdout if stdout is None else b""), p.stderr

    def cleanup(self):
        import shutil
        shutil.rmtree(self.dir, ignore_errors=True)


def g_format_names(c, hint=None):
    bad = []
    cands = list(NAMES) + ["", "J", "JSON", "js", "jso", "jsonn", "yml", "x", "mp", "msg", "tom", "ya", "yam", "Yaml", " json", "json "]
    if hint and hint.get("name") is not None:
        cands.append(hint["name"])
    for n in cands:
        for opt in ("-f", "-t"):
            rc, out, err = c.run([opt, n, "small.json"] if opt == "-t" else [opt, n, "doc." + NAMES.get(n, "json")])
            if n in NAMES:
                if rc != 0:
                    bad.append("`xt %s %s` is a documented format name but exits %d: %s" % (opt, n, rc, err[:80]))
            elif rc != 2 or out or not err.startswith(b"xt error"):
                bad.append("`xt %s %r` is not a format name but exit=%d stdout=%r stderr=%r" % (opt, n, rc, out[:30], err[:60]))
    return bad


def g_extensions(c, hint=None):
    bad = []
    for fname, fmt in [("doc.json", "json"), ("doc.JSON", "json"), ("doc.msgpack", "msgpack"), ("doc.MSGPACK", "msgpack"), ("doc.toml", "toml"),
                       ("doc.TOML", "toml"), ("doc.yaml", "yaml"), ("doc.YAML", "yaml"), ("doc.yml", "yaml"), ("archive.tar.yaml", "yaml")]:
        a = c.run([fname])
        b = c.run(["-f", fmt, fname])
        if a != b or a[0] != 0:
            bad.append("`xt %s` differs from `xt -f %s %s`: %r vs %r" % (fname, fmt, fname, a[:2], b[:2]))
    # a file name that is nothing but ".json" has no extension (Path::extension): its content is detected
    for dot, content in ((".json", "yaml"), (".yaml", "json"), (".TOML", "json"), (".msgpack", "yaml"), (".yml", "toml")):
        open(os.path.join(c.dir, dot), "wb").write(CONTENT[content])
        a = c.run([dot])
        b = c.run(["-f", content, "doc." + content])
        if a[0] != 0 or a[:2] != b[:2]:
            bad.append("`xt %s` (a dotfile without extension holding %s) should be detected by content like `xt -f %s doc.%s`: %r vs %r" % (dot, content, content, content, a[:3], b[:2]))
    # a misleading extension is believed; -f overrides it
    a = c.run(["lies.json"])
    if a[0] != 1 or not a[2].startswith(b"xt error in lies.json"):
        bad.append("`xt lies.json` (TOML content) should fail as JSON and name the input: %r" % (a,))
    a = c.run(["-f", "toml", "lies.json"])
    b = c.run(["-f", "toml", "doc.toml"])
    if a[0] != 0 or a[1] != b[1]:
        bad.append("`xt -f toml lies.json`: -f must win over the extension: %r" % (a,))
    # no extension: detection
    a = c.run(["noext"])
    b = c.run(["-f", "json", "noext"])
    if a != b:
        bad.append("`xt noext` should detect JSON: %r" % (a,))
    return bad


def g_resolution(c, hint=None):
    """several inputs: each one is resolved on its own"""
    bad = g_extensions(c)
    single = {}
    for f in ("doc.json", "doc.toml", "doc.yaml", "doc.msgpack", "noext"):
        single[f] = c.run([f])
    for combo in itertools.permutations(["doc.json", "doc.yaml", "doc.msgpack", "noext"], 2):
        rc, out, err = c.run(list(combo))
        want = b"".join(single[f][1] for f in combo)
        if rc != 0 or out != want:
            bad.append("`xt %s`: output is not the concatenation of the single-input translations (exit %d, %r)" % (" ".join(combo), rc, err[:80]))
    # stdin: '-' at either position, and no arguments
    for args in (["-", "doc.yaml"], ["doc.yaml", "-"]):
        rc, out, err = c.run(args, stdin=CONTENT["json"])
        parts = [c.run([], stdin=CONTENT["json"])[1] if a == "-" else single[a][1] for a in args]
        if rc != 0 or out != b"".join(parts):
            bad.append("`xt %s` with JSON on stdin: wrong output (exit %d, %r)" % (" ".join(args), rc, err[:80]))
    rc, out, err = c.run(["-", "-"], stdin=CONTENT["json"])
    if rc != 1 or not err.startswith(b"xt error"):
        bad.append("`xt - -` must fail with status 1: %r" % ((rc, out, err),))
    # standard input that is a regular file whose offset is not 0: only the rest is input
    two = os.path.join(c.dir, "two.json")
    first = b'{"skip":0}\n'
    open(two, "wb").write(first + b'{"keep":1}\n')
    for argv in ([], ["-"], ["-f", "json"]):
        fd = os.open(two, os.O_RDONLY)
        os.lseek(fd, len(first), os.SEEK_SET)
        p = subprocess.run([c.bin] + argv, stdin=fd, stdout=subprocess.PIPE, stderr=subprocess.PIPE, cwd=c.dir, timeout=20)
        os.close(fd)
        if p.returncode != 0 or p.stdout != b'{"keep":1}\n':
            bad.append("`{ read line; xt %s; } < two.json` must translate only what is left on standard input: exit=%d stdout=%r" % (" ".join(argv), p.returncode, p.stdout[:60]))
    rc, out, err = c.run(["-f", "yaml", "doc.json", "doc.yaml"])
    a = c.run(["-f", "yaml", "doc.json"])
    b = c.run(["-f", "yaml", "doc.yaml"])
    if rc != 0 or out != a[1] + b[1]:
        bad.append("`xt -f yaml doc.json doc.yaml`: -f applies to every input")
    return bad


def g_usage(c, hint=None):
    bad = []
    cases = [["--bogus"], ["-x"], ["-f"], ["-t"], ["-f", "nope", "doc.json"], ["-t", "nope"], ["-f", "json", "-f", "json", "doc.json"],
             ["-fj", "-fy", "doc.json"], ["-t", "json", "--frob", "doc.json"]]
    for a, b in itertools.product(NAMES, NAMES):
        cases.append(["-t", a, "-t", b, "small.json"])
        cases.append(["-t" + a, "-t" + b, "small.json"])
        cases.append(["-f", a, "-f", b, "doc.json"])
    if hint and hint.get("tokens"):
        argv = []
        for t in hint["tokens"]:
            if t in ("f", "t"):
                argv += ["-" + t, "json"]
            elif t in ("V", "h", "x"):
                argv.append("-" + t)
            elif t in ("version", "help"):
                argv.append("--" + t)
            elif t == "other":
                argv.append("--frobnicate")
            elif t == "value":
                argv.append("doc.json")
        cases.append(("tokens", argv))
    for case in cases:
        tagged = isinstance(case, tuple)
        argv = case[1] if tagged else case
        rc, out, err = c.run(argv, stdin=b"")
        if tagged:
            continue
        if rc != 2 or out or not err.startswith(b"xt error") or b"Usage:" not in err:
            bad.append("`xt %s` is an invalid command line but exit=%d stdout=%r stderr=%r" % (" ".join(argv), rc, out[:30], err[:70]))
    for argv in (["-h"], ["--help"], ["-V"], ["--version"], ["doc.json", "-h"], ["-V", "--bogus"]):
        rc, out, err = c.run(argv)
        if rc != 0 or err or not out:
            bad.append("`xt %s` should print to stdout and exit 0: exit=%d stderr=%r" % (" ".join(argv), rc, err[:60]))
    for argv, stdin in ((["-t", "yaml", "doc.json"], b""), (["-tm", "doc.json"], b""), (["-fj", "-ty"], CONTENT["json"])):
        rc, out, err = c.run(argv, stdin=stdin)
        if rc != 0 or err:
            bad.append("`xt %s` is valid but exit=%d stderr=%r" % (" ".join(argv), rc, err[:60]))
    # standard output on a terminal: MessagePack is refused - a valid command line, so exit 1 with one message, no
    # usage text, nothing on the terminal; text formats go through
    try:
        import pty
        import select
        for argv, want_rc in ((["-t", "msgpack", "small.json"], 1), (["-tm", "small.json"], 1), (["-t", "m", "-f", "json", "small.json"], 1), (["-t", "json", "small.json"], 0)):
            master, slave = pty.openpty()
            p = subprocess.Popen([c.bin] + argv, stdin=subprocess.DEVNULL, stdout=slave, stderr=subprocess.PIPE, cwd=c.dir)
            os.close(slave)
            err = p.communicate(timeout=20)[1]
            out = b""
            while select.select([master], [], [], 0.2)[0]:
                try:
                    chunk = os.read(master, 65536)
                except OSError:
                    break
                if not chunk:
                    break
                out += chunk
            os.close(master)
            if want_rc == 1 and (p.returncode != 1 or out or not err.startswith(b"xt error") or b"Usage:" in err or err.count(b"\n") != 1):
                bad.append("`xt %s` with stdout on a terminal: a valid command line that is refused must exit 1 with one 'xt error' line, no usage text, nothing on the terminal: exit=%d tty=%r stderr=%r"
                           % (" ".join(argv), p.returncode, out[:40], err[:120]))
            if want_rc == 0 and (p.returncode != 0 or err or not out):
                bad.append("`xt %s` with stdout on a terminal should just print: exit=%d stderr=%r" % (" ".join(argv), p.returncode, err[:80]))
    except (ImportError, OSError):
        pass
    return bad


def g_exit1(c, hint=None):
    bad = []
    for argv, named in ((["missing.json"], b"missing.json"), (["doc.json", "missing.json"], b"missing.json"), (["bad.json"], b"bad.json"),
                        (["doc.yaml", "bad.json"], b"bad.json"), ([".."], b".."), (["-t", "toml", "doc.json", "doc.json"], b"doc.json"), (["-t", "toml", "small.json", "small.json"], b"small.json"),
                        (["-t", "toml", "small.json", "doc.toml"], b"doc.toml"),
                        (["-f", "msgpack", ".."], b".."), (["-f", "yaml", "."], b".")):
        rc, out, err = c.run(argv)
        if rc != 1 or not err.startswith(b"xt error in " + named):
            bad.append("`xt %s` should exit 1 with 'xt error in %s: ...': exit=%d stderr=%r" % (" ".join(argv), named.decode(), rc, err[:80]))
        if err.count(b"\n") != 1:
            bad.append("`xt %s`: exactly one error line expected: %r" % (" ".join(argv), err[:120]))
    # a TOML target takes exactly one document for the whole run: the second input is refused, the first one's output stands
    one = c.run(["-t", "toml", "small.json"])[1]
    for second in ("small.json", "doc.toml", "-"):
        rc, out, err = c.run(["-t", "toml", "small.json", second], stdin=b"x = 1\n")
        if rc != 1 or out != one:
            bad.append("`xt -t toml small.json %s`: the second input must be refused (exit 1) with only the first document on stdout: exit=%d stdout=%r" % (second, rc, out[:80]))
    # a path whose size reads as 0 but which has content (a FIFO): it is read like any other input
    try:
        import threading
        for content, want_rc in ((CONTENT["json"], 0), (b'{"a":', 1)):
            fifo = os.path.join(c.dir, "pipe.json")
            if os.path.exists(fifo):
                os.remove(fifo)
            os.mkfifo(fifo)

            def feed(fifo=fifo, content=content):
                try:
                    with open(fifo, "wb") as f:
                        f.write(content)
                except OSError:
                    pass
            t = threading.Thread(target=feed, daemon=True)
            t.start()
            try:
                rc, out, err = c.run(["pipe.json"], timeout=20)
            except subprocess.TimeoutExpired:
                rc, out, err = -999, b"", b"timeout"
            # if xt never opened/read the FIFO the feeder is still blocked: unblock it
            if t.is_alive():
                try:
                    fd = os.open(fifo, os.O_RDONLY | os.O_NONBLOCK)
                    os.close(fd)
                except OSError:
                    pass
                t.join(2)
            want_out = c.run(["doc.json"])[1] if want_rc == 0 else None
            if rc != want_rc or (want_out is not None and out != want_out):
                bad.append("`xt pipe.json` (a named pipe holding %r): exit=%d stdout=%r stderr=%r - a FIFO must be read and translated like a file" % (content[:20], rc, out[:40], err[:80]))
            os.remove(fifo)
    except (OSError, AttributeError):
        pass
    rc, out, err = c.run(["-", "-"], stdin=b"1")
    if rc != 1 or not err.startswith(b"xt error"):
        bad.append("`xt - -`: %r" % ((rc, err),))
    # an unwritable standard error must not change how xt ends
    for argv in (["missing.json"], ["bad.json"], ["--bogus"], ["small.json", "missing.json"]):
        with open("/dev/full", "wb") as full:
            p = subprocess.run([c.bin] + argv, stdout=subprocess.PIPE, stderr=full, cwd=c.dir, timeout=20)
        want = 2 if argv == ["--bogus"] else 1
        if p.returncode != want:
            bad.append("`xt %s 2>/dev/full` must still exit %d, got status %d" % (" ".join(argv), want, p.returncode))
    return bad


def g_flush(c, hint=None):
    bad = []
    small = c.run(["small.json"])[1]
    for later in (["missing.json"], ["bad.json"], ["-"], [".."]):
        argv = ["small.json"] + (["-", "-"] if later == ["-"] else later)
        rc, out, err = c.run(argv, stdin=b'{"s":2}')
        if rc != 1 or not out.startswith(small):
            bad.append("`xt %s`: the finished input's output must be on stdout before exit 1 (exit %d, stdout %r)" % (" ".join(argv), rc, out[:40]))
    for to in ("json", "yaml", "msgpack", "toml"):
        one = c.run(["-t", to, "small.json"])[1]
        rc, out, err = c.run(["-t", to, "small.json", "missing.json"])
        if rc != 1 or out != one:
            bad.append("`xt -t %s small.json missing.json`: the finished input's output (%d bytes) must be on stdout before exit 1, got %d bytes (exit %d)" % (to, len(one), len(out), rc))
    bigout = c.run(["big.json"])[1]
    rc, out, err = c.run(["big.json", "small.json", "missing.json"])
    if rc != 1 or out != bigout + small:
        bad.append("`xt big.json small.json missing.json`: output of both finished inputs expected (%d bytes, got %d)" % (len(bigout + small), len(out)))
    # success: everything written, also to a full device -> status 1 with a message
    for f in ("small.json", "big.json"):
        with open("/dev/full", "wb") as full:
            rc, out, err = c.run([f], stdout=full)
        if rc != 1 or not err.startswith(b"xt error"):
            bad.append("`xt %s > /dev/full` must exit 1 with a message: exit=%d stderr=%r" % (f, rc, err[:60]))
    with open("/dev/full", "wb") as full:
        rc, out, err = c.run(["-t", "msgpack", "small.json", "small.json"], stdout=full)
    if rc != 1:
        bad.append("`xt -t msgpack small.json small.json > /dev/full` must exit 1 (exit %d)" % rc)
    return bad


def g_pipe(c, hint=None):
    bad = []
    for argv in (["big.json"], ["-t", "yaml", "big.json"], ["big.json", "big.json"], ["small.json"], ["big.json", "small.json"]):
        r, w = os.pipe()
        os.close(r)  # the consumer is already gone
        p = subprocess.run([c.bin] + argv, stdout=w, stderr=subprocess.PIPE, cwd=c.dir, timeout=20)
        os.close(w)
        if p.returncode != -13 or p.stderr:
            bad.append("`xt %s` into a closed pipe must die of SIGPIPE silently: status=%d stderr=%r" % (" ".join(argv), p.returncode, p.stderr[:80]))
    # consumer leaves after a few bytes
    for k in (1, 100, 8192, 20000):
        p = subprocess.Popen([c.bin, "big.json", "big.json"], stdout=subprocess.PIPE, stderr=subprocess.PIPE, cwd=c.dir)
        p.stdout.read(k)
        p.stdout.close()
        err = p.stderr.read()
        rc = p.wait(timeout=20)
        if rc != -13 or err:
            bad.append("consumer leaves after %d bytes: status=%d stderr=%r" % (k, rc, err[:80]))
    return bad


def g_depth(c, hint=None):
    """C18 at the command line: the binary survives every nesting depth on its default main-thread stack"""
    bad = []

    def nest(kind, d):
        if kind == "arrays":
            return bytes([0x91]) * d + b"\xc0"
        if kind == "maps":
            return bytes([0x81, 0xa1, 0x6b]) * d + b"\xc0"
        return b"".join(bytes([0x91]) if i % 2 else bytes([0x81, 0xa1, 0x6b]) for i in range(d)) + b"\xc0"
    for kind in ("arrays", "maps", "mixed"):
        for d in (100, 600, 900, 1000, 1023, 1024, 1025, 5000):
            data = nest(kind, d)
            fn = "deep-%s-%d.msgpack" % (kind, d)
            open(os.path.join(c.dir, fn), "wb").write(data)
            for to in ("json", "msgpack", "yaml"):
                for via in ("file", "stdin"):
                    try:
                        rc, out, err = c.run(["-t", to, fn] if via == "file" else ["-f", "msgpack", "-t", to], stdin=b"" if via == "file" else data, timeout=60)
                    except subprocess.TimeoutExpired:
                        bad.append("%s depth %d -> %s via %s: hangs" % (kind, d, to, via))
                        continue
                    if rc < 0 or rc > 2:
                        bad.append("%s depth %d -> %s via %s: the process dies (status %d): %r" % (kind, d, to, via, rc, err[:80]))
                    elif d <= 1023 and (rc != 0 or not out):
                        bad.append("%s depth %d -> %s via %s: within the documented limit but exit=%d stderr=%r" % (kind, d, to, via, rc, err[:80]))
                    elif d > 1023 and (rc != 1 or b"depth limit" not in err):
                        bad.append("%s depth %d -> %s via %s: beyond the limit but exit=%d stderr=%r" % (kind, d, to, via, rc, err[:80]))
    return bad


GROUPS = {
    "format_name": g_format_names, "extension": g_extensions, "resolution": g_resolution, "input_kind": g_resolution, "to": g_resolution,
    "stdin_twice": g_resolution, "noargs": g_resolution, "open_stdin": g_resolution, "open_file": g_resolution, "open_err": g_exit1,
    "open_ok": g_resolution, "open_fallback": g_resolution, "dash": g_resolution,
    "usage": g_usage, "argv": g_usage, "exit_code": g_usage, "exit1": g_exit1, "names_input": g_exit1, "exit0": g_flush, "exit0_flush": g_flush,
    "stdout": g_usage, "flush_order": g_flush, "flush_chain": g_flush, "flush_exit1": g_flush, "flush_return": g_flush, "wiring": g_pipe, "thread": g_depth,
}


def replay(binary, kind, hint=None):
    c = Cli(binary)
    try:
        fn = GROUPS.get(kind)
        if fn is None:
            return None, ["no native scenario group for violation kind %r" % kind]
        return True, fn(c, hint)
    finally:
        c.cleanup()


if __name__ == "__main__":
    import sys
    b = sys.argv[1]
    for name in sorted(set(GROUPS.values()), key=lambda f: f.__name__):
        c = Cli(b)
        res = name(c)
        c.cleanup()
        print(name.__name__, "OK" if not res else "MISMATCH:\n  " + "\n  ".join(res[:8]))
