#!/usr/bin/env python3
"""E3 property drivers (DESIGN.md 5.K): K1 name tables, K2 argv grammar, K3 exit discipline,
K4 source resolution, K5 flush discipline, K6 wiring - all over the MIR of the real binary crate."""
import re
import z3

import xtmir as X
from xtmir import Inconclusive, asint, asstr, disc, fresh, proj, pure_fn

FMT = {"Json": 0, "Msgpack": 1, "Toml": 2, "Yaml": 3}


class Report:
    def __init__(self):
        self.violations = []   # (query, message, witness)
        self.witnesses = []
        self.paths = 0
        self.queries = 0
        self.pruned = 0
        self.solver_s = 0.0
        self.samples = []

    def bad(self, query, msg, witness=None):
        key = (query, msg)
        if key not in [(v[0], v[1]) for v in self.violations]:
            self.violations.append((query, msg, witness))

    def absorb(self, ex):
        self.paths += ex.stats["paths"]
        self.queries += ex.stats["queries"]
        self.pruned += ex.stats["pruned"]
        self.solver_s += ex.stats["solver_s"]


def model_str(m, term):
    try:
        v = m.eval(term, model_completion=True)
        return v.as_string() if z3.is_string_value(v) else str(v)
    except Exception:
        return "?"


# -------------------------------------------------------------------------------------------------
# K1: name tables (unbounded in the string)
# -------------------------------------------------------------------------------------------------

NAME_TABLE = {"j": 0, "json": 0, "m": 1, "msgpack": 1, "t": 2, "toml": 2, "y": 3, "yaml": 3}
EXT_TABLE = {"json": 0, "msgpack": 1, "toml": 2, "yaml": 3, "yml": 3}


def table_expr(s, table, on_hit, on_miss):
    e = on_miss
    for k, v in table.items():
        e = z3.If(s == z3.StringVal(k), on_hit(v), e)
    return e


def k1_try_parse_format(mir, rep):
    ex = X.Exec(mir)
    fn = mir.find(r"^try_parse_format$")
    s = fresh("s")
    n = [0]

    def fin(p, how, value):
        n[0] += 1
        if how != "return":
            rep.bad("K1.try_parse_format", "path ends with %s" % how)
            return
        want_ok = z3.Or([asstr(s) == z3.StringVal(k) for k in NAME_TABLE])
        want_fmt = table_expr(asstr(s), NAME_TABLE, lambda v: z3.IntVal(v), z3.IntVal(-1))
        claim = z3.If(want_ok, z3.And(disc(value) == 0, disc(proj(value, "Ok.0")) == want_fmt), disc(value) == 1)
        ok, m = ex.valid(p, claim)
        if not ok:
            rep.bad("K1.try_parse_format", "format name table differs from the documented one",
                    {"kind": "format_name", "name": model_str(m, asstr(s)), "got_disc": str(m.eval(disc(value), model_completion=True)),
                     "got_format": str(m.eval(disc(proj(value, "Ok.0")), model_completion=True))})
    ex.run(fn, X.Path(), [s], fin)
    rep.absorb(ex)
    rep.witnesses.append("K1 try_parse_format: %d return paths" % n[0])
    rep.samples.append({"query": "K1.try_parse_format", "paths": n[0], "claim": "for EVERY string s: Ok(f) iff s in the documented table (j/json, m/msgpack, t/toml, y/yaml) with the right f, else Err"})


def closure_by_type(mir, ctype):
    for f in mir.functions.values():
        if ("_1: " + ctype) in f.sig:
            return f
    raise Inconclusive("closure body for %s not found" % ctype)


def opt_combinator_handler(mir):
    """Option::and_then / Option::map / Option::or_else with closure bodies executed from MIR"""
    def h(ex, p, fn, argv, dst, dst_type, cur_fn):
        m = re.search(r"Option::<.*?>::(and_then|map|or_else)::<", fn)
        if not m:
            return None
        kind = m.group(1)
        opt, clo = argv[0], argv[1]
        ctype = re.search(r"(\{closure@[^}]*\})>?$", fn.rstrip(">"))
        cm = re.findall(r"\{closure@[^}]*\}", fn)
        fnitem = None
        if not cm:
            fm = re.search(r"\{([\w:<>, ]+)\}>$", fn)
            if not fm:
                raise Inconclusive("closure type not found in %s" % fn)
            last = re.sub(r"::<.*", "", fm.group(1)).split("::")[-1]
            fnitem = mir.find(r"(^|::)%s$" % re.escape(last))
        body = fnitem or closure_by_type(mir, cm[-1])
        forks = []
        some_arm = p.clone()
        some_arm.pc.append(disc(opt) == 1)
        none_arm = p.clone()
        none_arm.pc.append(disc(opt) == 0)
        out = []
        if kind == "or_else":
            run_on, keep_on, call_args = none_arm, some_arm, ([] if fnitem else [clo])
        else:
            run_on, keep_on, call_args = some_arm, none_arm, ([proj(opt, "Some.0")] if fnitem else [clo, proj(opt, "Some.0")])
        if ex.feasible(keep_on):
            if kind == "or_else":
                out.append((keep_on.pc[-1], opt))
            else:
                v = fresh("none")
                keep_on.pc.append(disc(v) == 0)
                out.append((z3.And(keep_on.pc[len(p.pc):]), v))
        if ex.feasible(run_on):
            results = []
            q0 = run_on.clone()
            q0.env = {}
            ex.run(body, q0, call_args, lambda qp, how, value: results.append((qp, how, value)))
            for qp, how, value in results:
                if how in ("dead", "unreachable"):
                    continue
                if how != "return":
                    # the closure ended the process (e.g. bailed out): that fork ends here
                    extra = qp.pc[len(p.pc):]
                    out.append((z3.And(extra) if extra else z3.BoolVal(True), ("__done__", how, value), qp.trace[len(p.trace):]))
                    continue
                if kind == "map":
                    v = fresh("some")
                    qp.pc.append(disc(v) == 1)
                    qp.pc.append(proj(v, "Some.0") == value)
                    value = v
                extra = qp.pc[len(p.pc):]
                # events recorded inside the closure belong to this fork only
                out.append((z3.And(extra) if extra else z3.BoolVal(True), value, qp.trace[len(p.trace):]))
        return out
    return h


def k1_extension_format(mir, rep):
    handler = opt_combinator_handler(mir)
    ex = X.Exec(mir, handler)
    ex.pure = {r"Path::extension$": "ext", r"OsStr::to_str$": "tostr", r"to_ascii_lowercase$": "lower"}
    fn = mir.find(r"::extension_format$")
    path = fresh("path")
    n = [0]
    ext = pure_fn("ext", 1)
    tostr = pure_fn("tostr", 1)
    lower = pure_fn("lower", 1)
    pb = proj(path, "File.0")
    e = ext(pb)
    t = tostr(proj(e, "Some.0"))
    l = lower(proj(t, "Some.0"))
    want_some = z3.And(disc(path) == 1, disc(e) == 1, disc(t) == 1, z3.Or([asstr(l) == z3.StringVal(k) for k in EXT_TABLE]))
    want_fmt = table_expr(asstr(l), EXT_TABLE, lambda v: z3.IntVal(v), z3.IntVal(-1))

    def fin(p, how, value):
        n[0] += 1
        if how != "return":
            rep.bad("K1.extension_format", "path ends with %s" % how)
            return
        claim = z3.If(want_some, z3.And(disc(value) == 1, disc(proj(value, "Some.0")) == want_fmt), disc(value) == 0)
        ok, m = ex.valid(p, claim)
        if not ok:
            rep.bad("K1.extension_format", "extension table differs from lowercase(last extension) in {json, msgpack, toml, yaml, yml}",
                    {"kind": "extension", "lowercased_extension": model_str(m, asstr(l)), "got_some": str(m.eval(disc(value), model_completion=True)),
                     "got_format": str(m.eval(disc(proj(value, "Some.0")), model_completion=True))})
    p0 = X.Path()
    p0.pc.append(z3.Or(disc(path) == 0, disc(path) == 1))
    ex.run(fn, p0, [path], fin)
    rep.absorb(ex)
    rep.witnesses.append("K1 extension_format: %d return paths" % n[0])
    rep.samples.append({"query": "K1.extension_format", "paths": n[0],
                        "claim": "for every path value: Some(f) iff the input is a file whose Path::extension, as UTF-8, ASCII-lowercased, is in the table; stdin => None"})


def k1_input_path_from(mir, rep):
    ex = X.Exec(mir)
    fn = [f for n, f in mir.functions.items() if n.endswith("::from") and "PathBuf" in f.sig and "InputPath" in f.sig]
    if len(fn) != 1:
        raise Inconclusive("InputPath::from not found")
    pb = fresh("pathbuf")
    n = [0]

    def fin(p, how, value):
        n[0] += 1
        claim = z3.If(asstr(pb) == z3.StringVal("-"), disc(value) == 0, z3.And(disc(value) == 1, proj(value, "File.0") == pb))
        ok, m = ex.valid(p, claim)
        if how != "return" or not ok:
            rep.bad("K1.input_path_from", "exactly the argument \"-\" means standard input; every other argument is that file",
                    {"kind": "dash", "arg": model_str(m, asstr(pb)) if m else "?"})
    ex.run(fn[0], X.Path(), [pb], fin)
    rep.absorb(ex)
    rep.witnesses.append("K1 InputPath::from: %d return paths" % n[0])
    rep.samples.append({"query": "K1.input_path_from", "paths": n[0], "claim": "for EVERY argument string: \"-\" <=> InputPath::Stdin, else InputPath::File(arg)"})


def k1_unsafe_for_terminal(mir, rep):
    ex = X.Exec(mir)
    fn = mir.find(r"^format_is_unsafe_for_terminal$")
    f = fresh("format")
    p0 = X.Path()
    p0.pc.append(z3.And(disc(f) >= 0, disc(f) <= 3))
    n = [0]

    def fin(p, how, value):
        n[0] += 1
        ok, m = ex.valid(p, asint(value) == z3.If(disc(f) == FMT["Msgpack"], 1, 0))
        if how != "return" or not ok:
            rep.bad("K1.unsafe_for_terminal", "exactly MessagePack is refused on a terminal", {"kind": "tty", "format": str(m.eval(disc(f))) if m else "?"})
    ex.run(fn, p0, [f], fin)
    rep.absorb(ex)
    rep.witnesses.append("K1 format_is_unsafe_for_terminal: %d paths" % n[0])


def k4_open(mir, rep):
    """InputPath::open: stdin is not opened; a file is opened once; mmap is tried and its failure falls back to the file"""
    def h(ex, p, fn, argv, dst, dst_type, cur_fn):
        if re.search(r"File::open::<", fn):
            p.trace.append(("File::open", argv[0]))
            r = fresh("openres")
            return [(disc(r) == 0, r), (disc(r) == 1, r)]
        if re.search(r"Mmap::map::<", fn):
            p.trace.append(("Mmap::map", argv[0]))
            r = fresh("mapres")
            return [(disc(r) == 0, r), (disc(r) == 1, r)]
        return None
    ex = X.Exec(mir, h)
    fn = mir.find(r"::open$")
    path = fresh("path")
    p0 = X.Path()
    p0.pc.append(z3.Or(disc(path) == 0, disc(path) == 1))
    n = [0]

    def fin(p, how, value):
        n[0] += 1
        if how != "return":
            rep.bad("K4.open", "open ends with %s" % how)
            return
        opens = [e for e in p.trace if e[0] == "File::open"]
        maps = [e for e in p.trace if e[0] == "Mmap::map"]
        stdin = ex.valid(p, disc(path) == 0)[0]
        if stdin:
            good = not opens and not maps and ex.valid(p, z3.And(disc(value) == 0, disc(proj(value, "Ok.0")) == X.VARIANTS["Input::Stdin"]))[0]
            if not good:
                rep.bad("K4.open", "standard input is handed out without opening anything", {"kind": "open_stdin"})
            return
        if len(opens) != 1 or not ex.valid(p, opens[0][1] == proj(path, "File.0"))[0]:
            rep.bad("K4.open", "a file argument is opened exactly once, by its own path", {"kind": "open_file"})
            return
        opened = None
        for c in p.pc:
            pass
        # open failed -> Err, nothing mapped
        okv = ex.valid(p, disc(value) == 0)[0]
        errv = ex.valid(p, disc(value) == 1)[0]
        if not maps:
            if not errv:
                rep.bad("K4.open", "a failed open is returned as Err, and no path returns an input without trying to map the opened file (its size or kind is not consulted: a FIFO is read like a file)", {"kind": "open_err"})
            return
        if not okv:
            rep.bad("K4.open", "after a successful open the result is Ok whether or not mmap works", {"kind": "open_ok"})
            return
        k = proj(value, "Ok.0")
        mapped_ok = any(ex.valid(p, disc(mr) == 0)[0] for mr in _map_results(p))
        want = X.VARIANTS["Input::Mmap"] if mapped_ok else X.VARIANTS["Input::File"]
        if not ex.valid(p, disc(k) == want)[0]:
            rep.bad("K4.open", "mmap success => Input::Mmap, mmap failure => fall back to Input::File", {"kind": "open_fallback"})
    ex.run(fn, p0, [path], fin)
    rep.absorb(ex)
    rep.witnesses.append("K4 InputPath::open: %d return paths" % n[0])
    rep.samples.append({"query": "K4.open", "paths": n[0], "claim": "stdin: nothing opened; file: File::open(path) once; Err propagated; Mmap::map Ok => Input::Mmap else Input::File"})


def _map_results(p):
    out = []
    for c in p.pc:
        s = str(c)
        m = re.match(r"^disc\((mapres#\d+)\) == (\d)$", s)
        if m:
            out.append(z3.Const(m.group(1), X.V))
    return out


# -------------------------------------------------------------------------------------------------
# K3-K6: main()
# -------------------------------------------------------------------------------------------------

def decode_template(s):
    """rustc's compact format template: [len][literal bytes] ... 0xc0 marks an argument"""
    lits = []
    b = s.encode("latin-1", "replace") if isinstance(s, str) else s
    i = 0
    while i < len(b):
        n = b[i]
        if n == 0:
            break
        if n >= 0x80:
            # 0xc0: the next argument with default formatting (one byte); other placeholders carry options
            lits.append(None)
            i += 1 if n == 0xc0 else 2
            continue
        lits.append(b[i + 1:i + 1 + n].decode("latin-1"))
        i += 1 + n
    return lits


class MainModel:
    def __init__(self, mir, rep, max_inputs):
        self.mir, self.rep, self.K = mir, rep, max_inputs
        self.prov = {}
        self.main = mir.find(r"^main$")
        body = "\n".join("\n".join(b) for b in self.main.blocks.values())
        cli_locals = [l for l, t in self.main.types.items() if t == "Cli"]
        self.idx = {}
        for l in cli_locals:
            for m in re.finditer(r"\(%s\.(\d+): ([^)]+)\)" % l, body):
                t = m.group(2)
                if "Option<xt::Format>" in t:
                    self.idx["from"] = int(m.group(1))
                elif t.strip() == "xt::Format":
                    self.idx["to"] = int(m.group(1))
                elif "Vec<std::path::PathBuf>" in t:
                    self.idx["paths"] = int(m.group(1))
        self.extfmt = pure_fn("extension_format", 1)
        self.opt_h = opt_combinator_handler(mir)

    def note(self, v, info):
        self.prov[str(v)] = info
        return v

    def info(self, v):
        return self.prov.get(str(v))

    def handler(self, ex, p, fn, argv, dst, dst_type, cur_fn):
        g = p.ghost
        if fn == "drop":
            inf = self.info(argv[0])
            if inf and inf.get("kind") == "Writer":
                p.trace.append(("drop_writer",))
            return None
        if re.search(r"std::thread::|thread::Builder|thread::spawn|thread::scope|(^|::)Builder::(stack_size|spawn|spawn_scoped|spawn_unchecked)|JoinHandle::<.*>::join|(^|::)ScopedJoinHandle", fn):
            # C18: the depth limits were chosen against the main thread's stack; the translation must run there
            self.rep.bad("K6.thread", "main() runs the translation on the thread the process started on (its default main-thread stack), never on a spawned thread with a stack size of xt's own choosing",
                         {"kind": "thread", "call": re.sub(r"<.*", "", fn)[:80]})
            raise X.Done("dead")
        if re.search(r"(^|::)parse_args$", fn):
            r = fresh("parse")
            cli = proj(r, "Ok.0")
            frm = proj(cli, "f%d" % self.idx.get("from", 1))
            to = proj(cli, "f%d" % self.idx.get("to", 2))
            g["cli"], g["from"], g["to"], g["parse"] = cli, frm, to, r
            p.pc.append(z3.Or(disc(frm) == 0, disc(frm) == 1))
            p.pc.append(z3.And(disc(proj(frm, "Some.0")) >= 0, disc(proj(frm, "Some.0")) <= 3))
            p.pc.append(z3.And(disc(to) >= 0, disc(to) <= 3))
            p.trace.append(("parse_args", r))
            return [(disc(r) == 0, r), (disc(r) == 1, r)]
        if fn.endswith("process::exit"):
            p.trace.append(("exit", argv[0]))
            raise X.Done("exit", argv[0])
        if re.search(r"^(std::io::)?stderr$", fn):
            return self.note(fresh("stderr"), {"kind": "Stderr"})
        if re.search(r"^(std::io::)?stdout$", fn):
            return self.note(fresh("stdout"), {"kind": "Stdout"})
        if re.search(r"^(std::io::)?stdin$", fn):
            return self.note(fresh("stdin"), {"kind": "Stdin"})
        if fn.endswith("Stderr::lock"):
            return self.note(fresh("stderrlock"), {"kind": "StderrLock"})
        if fn.endswith("Stdout::lock"):
            p.trace.append(("stdout_lock",))
            return self.note(fresh("stdoutlock"), {"kind": "StdoutLock"})
        if fn.endswith("Stdin::lock"):
            p.trace.append(("stdin_lock",))
            return self.note(fresh("stdinlock"), {"kind": "StdinLock"})
        if "IsTerminal>::is_terminal" in fn:
            r = fresh("is_tty")
            g["is_tty"] = r
            p.pc.append(z3.Or(asint(r) == 0, asint(r) == 1))
            p.trace.append(("is_terminal", self.info(argv[0])))
            return r
        if re.search(r"Argument::<.*>::new_display::<(.*)>$", fn):
            return self.note(fresh("fmtarg"), {"kind": "Argument", "of": argv[0], "type": re.search(r"new_display::<(.*)>$", fn).group(1)})
        if re.search(r"Arguments::<.*>::new::<", fn) or "Arguments::<'_>::new" in fn:
            tmpl = getattr(argv[0], "mir_const", None)
            s = None
            for (k, c), v in ex.consts.items():
                if k == "s" and v is argv[0]:
                    s = c
            arr = argv[1] if len(argv) > 1 else None
            args = []
            if arr is not None:
                for c in p.pc:
                    if c.num_args() == 2 and str(c.arg(0)).startswith("proj_a") and str(c.arg(0).arg(0)) == str(arr):
                        args.append(self.info(c.arg(1)))
            return self.note(fresh("fmtargs"), {"kind": "Arguments", "literals": decode_template(s) if s is not None else [], "args": args})
        if "Arguments::<'_>::from_str" in fn or re.search(r"Arguments::<.*>::from_str", fn):
            s = None
            for (k, c), v in ex.consts.items():
                if k == "s" and v is argv[0]:
                    s = c
            return self.note(fresh("fmtargs"), {"kind": "Arguments", "literals": [s], "args": []})
        if fn.endswith("::write_fmt"):
            who = self.info(argv[0]) or {}
            what = self.info(argv[1]) or {}
            p.trace.append(("write_fmt", who.get("kind"), what))
            return fresh("wres")
        if re.search(r"(^|::)write_short_help::<", fn):
            who = self.info(argv[0]) or {}
            p.trace.append(("write_fmt", who.get("kind"), {"literals": ["Usage:"], "args": [], "help": True}))
            return fresh("unit")
        if "BufWriter::<" in fn and fn.endswith("::new"):
            return self.note(fresh("bufwriter"), {"kind": "BufWriter", "inner": self.info(argv[0])})
        if re.search(r"Writer::<.*>::new$", fn) and "BufWriter::<" not in fn.split("Writer::<")[0]:
            return self.note(fresh("pipewriter"), {"kind": "Writer", "inner": self.info(argv[0])})
        if re.search(r"Translator::<.*>::new$", fn):
            p.trace.append(("translator_new", self.info(argv[0]), argv[1]))
            g["translator_to"] = argv[1]
            return self.note(fresh("translator"), {"kind": "Translator"})
        m = re.search(r"Translator::<.*>::(translate_reader::<(.*)>|translate_slice)$", fn)
        if m:
            r = fresh("tr")
            kind = "slice" if m.group(1) == "translate_slice" else ("stdin" if "StdinLock" in m.group(2) else "file" if "File" in m.group(2) else m.group(2))
            src = self.info(argv[1])
            p.trace.append(("translate", kind, argv[-1], r, g.get("cur_path"), src))
            return [(disc(r) == 0, r), (disc(r) == 1, r)]
        m = re.search(r"(^|::)(translate_reader::<(.*)>|translate_slice(::<.*>)?)$", fn)
        if m and "Translator" not in fn:
            # the convenience functions build a translator of their own for every call
            self.rep.bad("K6.translator", "main() builds ONE translator over the one writer and sends every input through it: the output format's state (a TOML output refuses a second input), "
                         "the buffer and the pipe check are shared by all inputs", {"kind": "exit1", "call": re.sub(r"<.*", "", fn)[:60]})
            r = fresh("tr")
            kind = "slice" if "translate_slice" in m.group(2) else ("stdin" if "StdinLock" in (m.group(3) or "") else "file" if "File" in (m.group(3) or "") else "reader")
            p.trace.append(("translate", kind, argv[1] if len(argv) > 1 else None, r, g.get("cur_path"), self.info(argv[0])))
            return [(disc(r) == 0, r), (disc(r) == 1, r)]
        if re.search(r"Translator::<.*>::flush$", fn):
            r = fresh("fl")
            p.trace.append(("flush", r))
            return [(disc(r) == 0, r), (disc(r) == 1, r)]
        if re.search(r"Vec::<PathBuf>::is_empty$", fn):
            r = fresh("noargs")
            g["noargs"] = r
            p.pc.append(z3.Or(asint(r) == 0, asint(r) == 1))
            return r
        if re.search(r"^<(&mut )?(InputPaths<.*>|[A-Z]\w?) as Iterator>::next$", fn):  # (a generic wrapper sees the path iterator as `I`)
            it = argv[0]
            n = g.get("next_calls", 0)
            g["next_calls"] = n + 1
            one = ex.valid(p, disc(it) == X.VARIANTS["InputPaths::One"])[0]
            res = fresh("nextres")
            if one:
                if n == 0:
                    inner = proj(it, "One.0")
                    p.pc.append(disc(res) == 1)
                    p.pc.append(proj(res, "Some.0") == proj(inner, "Some.0"))
                    g["cur_path"] = proj(res, "Some.0")
                    p.trace.append(("next", g["cur_path"]))
                    return res
                p.pc.append(disc(res) == 0)
                p.trace.append(("next_end",))
                return res
            if n >= self.K:
                p.pc.append(disc(res) == 0)
                p.trace.append(("next_end",))
                return res
            path = proj(res, "Some.0")
            p.pc.append(z3.Or(disc(path) == 0, disc(path) == 1))
            g["cur_path"] = path
            return [(disc(res) == 1, res, [("next", path)]), (disc(res) == 0, res, [("next_end",)])]
        if re.search(r"(^|::)extension_format$", fn):
            return self.extfmt(argv[0])
        if re.search(r"File::open::<", fn):
            p.trace.append(("File::open", argv[0]))
            r = fresh("openres")
            return [(disc(r) == 0, r), (disc(r) == 1, r)]
        if re.search(r"Mmap::map::<", fn):
            r = fresh("mapres")
            return [(disc(r) == 0, r), (disc(r) == 1, r)]
        if re.search(r"Mmap as Deref>::deref$", fn):
            return self.note(fresh("mapslice"), {"kind": "MmapSlice", "of": argv[0]})
        r = self.opt_h(ex, p, fn, argv, dst, dst_type, cur_fn)
        if r is not None:
            return r
        return None


def k_main(mir, rep, max_inputs=3):
    mm = MainModel(mir, rep, max_inputs)
    ex = X.Exec(mir, mm.handler)
    ex.inline = {r"format_is_unsafe_for_terminal$", r"InputPath::open$", r"InputPaths::<.*>::one$", r"InputPaths::<.*>::many$"}
    ex.auto_inline_local = True   # helper functions main() may be split into are executed, not skipped
    stats = {"paths": 0, "exit0": 0, "exit1": 0, "exit2": 0, "translates": 0}

    def fin(p, how, value):
        stats["paths"] += 1
        check_main_path(ex, mm, rep, p, how, value, stats)
    ex.run(mm.main, X.Path(), None, fin)
    rep.absorb(ex)
    rep.witnesses.append("main(): %d paths (%d return, %d exit(1), %d exit(2)), %d translate calls checked, <= %d inputs"
                         % (stats["paths"], stats["exit0"], stats["exit1"], stats["exit2"], stats["translates"], max_inputs))
    rep.samples.append({"query": "K3-K6.main", "paths": stats["paths"], "bound": "<= %d inputs" % max_inputs,
                        "claim": "exit discipline, source-format resolution, flush discipline and writer wiring on every path of main()"})
    if stats["exit0"] == 0 or stats["exit1"] == 0 or stats["exit2"] == 0 or stats["translates"] == 0:
        raise Inconclusive("vacuity: main() exploration did not reach every exit kind (%s)" % stats)
    return stats


def starts_xt_error(ev):
    lits = [l for l in ev[2].get("literals", []) if l]
    return bool(lits) and lits[0].startswith("xt error")


def check_main_path(ex, mm, rep, p, how, value, stats):
    g = p.ghost
    tr = p.trace
    names = [e[0] for e in tr]
    code = None
    if how == "exit":
        ok, _ = ex.valid(p, z3.Or(asint(value) == 0, asint(value) == 1, asint(value) == 2))
        for c in (0, 1, 2):
            if ex.valid(p, asint(value) == c)[0]:
                code = c
        if code is None:
            rep.bad("K3", "exit status other than 0, 1 or 2", {"kind": "exit_code"})
            return
    elif how == "return":
        code = 0
    elif how in ("dead", "unreachable"):
        return
    else:
        rep.bad("K3", "main ends with %s" % how)
        return
    stats["exit%d" % code] += 1
    parse_err = "parse" in g and ex.valid(p, disc(g["parse"]) == 1)[0]
    stderr_writes = [e for e in tr if e[0] == "write_fmt" and e[1] == "StderrLock"]
    stdout_writes = [e for e in tr if e[0] == "write_fmt" and e[1] in ("StdoutLock", "Stdout")]
    translates = [e for e in tr if e[0] == "translate"]
    stats["translates"] += len(translates)
    # ---- K3 exit discipline
    if (code == 2) != parse_err:
        rep.bad("K3", "exit status 2 exactly when the command line is invalid", {"kind": "usage", "code": code, "parse_err": parse_err})
    if code == 2:
        if not stderr_writes or not starts_xt_error(stderr_writes[0]):
            rep.bad("K3", "a usage error writes a message beginning 'xt error' to standard error", {"kind": "usage"})
        if not any(e[2].get("help") for e in stderr_writes):
            rep.bad("K3", "a usage error prints the usage summary to standard error", {"kind": "usage"})
        if stdout_writes or "stdout_lock" in names or translates:
            rep.bad("K3", "a usage error writes nothing to standard output and translates nothing", {"kind": "usage"})
    if code == 1:
        if len(stderr_writes) != 1 or not starts_xt_error(stderr_writes[0]):
            rep.bad("K3", "every exit(1) is preceded by exactly one message on standard error that begins 'xt error'", {"kind": "exit1", "trace": names[-8:]})
        elif names[-1] == "exit" and "write_fmt" not in names[-3:]:
            rep.bad("K3", "the error message is written immediately before exit(1)", {"kind": "exit1"})
        else:
            # does the failure belong to an input? (open failed / translate failed)
            last_tr = translates[-1] if translates else None
            failed_translate = last_tr is not None and ex.valid(p, disc(last_tr[3]) == 1)[0]
            opens = [e for e in tr if e[0] == "File::open"]
            failed_open = bool(opens) and _last_open_failed(ex, p)
            if failed_translate or failed_open:
                msg = stderr_writes[0][2]
                lits = [l for l in msg.get("literals", []) if l]
                path_named = any(a and a.get("kind") == "Argument" and g.get("cur_path") is not None and
                                 ex.valid(p, a["of"] == g["cur_path"])[0] for a in msg.get("args", []))
                if not (lits and lits[0].startswith("xt error in ") and path_named):
                    rep.bad("K3", "a failure that belongs to an input names that input ('xt error in <input>: ...')",
                            {"kind": "names_input", "failed": "translate" if failed_translate else "open"})
    if code == 0 and how == "return":
        for e in translates:
            if not ex.valid(p, disc(e[3]) == 0)[0]:
                rep.bad("K3", "exit status 0 only when every input translated", {"kind": "exit0"})
        for e in tr:
            if e[0] == "flush" and not ex.valid(p, disc(e[1]) == 0)[0]:
                rep.bad("K3", "exit status 0 only when every flush succeeded", {"kind": "exit0_flush"})
    if stdout_writes and how != "exit":
        rep.bad("K3", "main() itself writes only translated data to standard output", {"kind": "stdout"})
    # terminal + MessagePack
    if "stdout_lock" in names and "is_tty" in g and "to" in g:
        if ex.feasible(p, z3.And(asint(g["is_tty"]) != 0, disc(g["to"]) == FMT["Msgpack"])):
            rep.bad("K3", "MessagePack is never written to a terminal: exit(1) before standard output is locked", {"kind": "tty"})
    if "stdout_lock" in names and "is_tty" not in g:
        rep.bad("K3", "the terminal check precedes any use of standard output", {"kind": "tty"})
    # ---- K4 source resolution, per translate call
    for e in translates:
        _, kind, frm_arg, res, path, src = e
        if path is None or "from" not in g:
            rep.bad("K4", "translate call without a current input", {"kind": "resolution"})
            continue
        want = z3.If(disc(g["from"]) == 1, g["from"], mm.extfmt(path))
        ok, m = ex.valid(p, frm_arg == want)
        if not ok:
            rep.bad("K4", "the source format of every input is -f if given, else the file extension, else detection",
                    {"kind": "resolution", "f_given": str(m.eval(disc(g["from"]), model_completion=True)),
                     "f_format": str(m.eval(disc(proj(g["from"], "Some.0")), model_completion=True)),
                     "ext_some": str(m.eval(disc(mm.extfmt(path)), model_completion=True)),
                     "ext_format": str(m.eval(disc(proj(mm.extfmt(path), "Some.0")), model_completion=True)),
                     "input_index": translates.index(e)})
        is_stdin = ex.valid(p, disc(path) == 0)[0]
        if is_stdin != (kind == "stdin"):
            rep.bad("K4", "standard input is translated from the locked stdin handle, files from the file or its memory map", {"kind": "input_kind", "got": kind})
        if kind == "slice" and not (src and src.get("kind") == "MmapSlice"):
            rep.bad("K4", "translate_slice is given the memory map of the input", {"kind": "input_kind"})
        if ex.valid(p, g.get("translator_to", frm_arg) == g["to"])[0] is False:
            rep.bad("K4", "the translator is built with the -t format", {"kind": "to"})
    # stdin at most once
    stdin_uses = [e for e in translates if e[1] == "stdin"]
    if len(stdin_uses) > 1 or names.count("stdin_lock") > 1:
        rep.bad("K4", "standard input is read at most once per run", {"kind": "stdin_twice"})
    if "noargs" in g and translates and ex.valid(p, asint(g["noargs"]) != 0)[0]:
        if len(translates) != 1 or translates[0][1] != "stdin":
            rep.bad("K4", "no file arguments: exactly one input, standard input", {"kind": "noargs"})
    # ---- K5 flush discipline
    pending = 0
    for i, e in enumerate(tr):
        if e[0] == "translate" and ex.valid(p, disc(e[3]) == 0)[0]:
            pending += 1
            # the very next library interaction must be the flush of this input
            nxt = [x for x in tr[i + 1:] if x[0] in ("translate", "flush", "exit", "next", "next_end", "File::open", "stdin_lock", "write_fmt")]
            if not nxt or nxt[0][0] != "flush":
                rep.bad("K5", "the output of a finished input is flushed before anything else can fail", {"kind": "flush_order", "next": nxt[0][0] if nxt else how})
        elif e[0] == "flush":
            if ex.valid(p, disc(e[1]) == 0)[0]:
                pending = 0
    if code == 1 and pending and not (tr and any(x[0] == "flush" for x in tr) and not ex.valid(p, disc([x for x in tr if x[0] == "flush"][-1][1]) == 0)[0]):
        rep.bad("K5", "at exit(1) the complete output of every finished input has been flushed", {"kind": "flush_exit1", "pending": pending})
    if how == "return" and pending:
        rep.bad("K5", "at a successful exit every byte of output has been flushed explicitly (BufWriter's drop ignores errors)", {"kind": "flush_return", "pending": pending})
    # ---- K5 (C15): at exit(1) every input that precedes the failing one has been translated
    if code == 1 and not parse_err:
        pulled = len([e for e in tr if e[0] == "next"])
        done = len([e for e in translates if ex.valid(p, disc(e[3]) == 0)[0]])
        if pulled and done < pulled - 1:
            rep.bad("K5", "when an input fails, every input given before it has already been translated and flushed (inputs are taken up strictly one after the other)",
                    {"kind": "flush_exit1", "inputs_taken": pulled, "translated": done})
    # ---- K6 wiring
    for e in tr:
        if e[0] == "translator_new":
            w = e[1] or {}
            inner = (w.get("inner") or {})
            if not (w.get("kind") == "Writer" and inner.get("kind") == "BufWriter" and (inner.get("inner") or {}).get("kind") == "StdoutLock"):
                rep.bad("K6", "the translator writes through pipecheck::Writer(BufWriter(stdout.lock())) - the pipe check sits outside the buffer", {"kind": "wiring", "got": str(w)})


def _last_open_failed(ex, p):
    last = None
    for c in p.pc:
        m = re.match(r"^disc\((openres#\d+)\) == (\d)$", str(c))
        if m:
            last = int(m.group(2))
    # the failing open must be the last interaction before the message
    names = [e[0] for e in p.trace]
    if last == 1:
        idx = max(i for i, n in enumerate(names) if n == "File::open")
        return not any(n in ("translate", "flush") for n in names[idx:])
    return False


# -------------------------------------------------------------------------------------------------
# K2: argv grammar
# -------------------------------------------------------------------------------------------------

TOKENS = ["f", "t", "V", "h", "x", "version", "help", "other", "value", "err", "end"]


def k2_parse_args(mir, rep, max_tokens=3):
    fn = mir.find(r"::parse_args$")
    arg_variants = {"Short": None, "Long": None, "Value": None}
    # lexopt::Arg is a foreign enum: read the indices off the MIR's own switch on the variant projections
    body = "\n".join("\n".join(b) for b in fn.blocks.values())
    order = {}
    m = re.search(r"switchInt\(move (_\d+)\) -> \[0: (bb\d+), 1: (bb\d+), 2: (bb\d+), otherwise", body)
    if not m:
        raise Inconclusive("parse_args: variant switch on lexopt::Arg not found")
    for k, bbn in enumerate(m.groups()[1:]):
        blk = "\n".join(fn.blocks[bbn])
        for name in arg_variants:
            if (" as %s)" % name) in blk:
                order[name] = k
    if len(order) < 3:
        # fall back to lexopt's declaration order
        order = {"Short": 0, "Long": 1, "Value": 2}
    stats = {"paths": 0, "err": 0, "ok": 0, "exit0": 0}

    def h(ex, p, fnname, argv, dst, dst_type, cur_fn):
        g = p.ghost
        if fnname.endswith("Parser::from_env"):
            return fresh("parser")
        if fnname.endswith("Parser::next"):
            outs = []
            g["n_next"] = g.get("n_next", 0) + 1
            if g["n_next"] > max_tokens:
                choices = ["err", "end"]
            else:
                choices = TOKENS
            for t in choices:
                r = fresh("next_" + t)
                conds = []
                if t == "err":
                    conds.append(disc(r) == 1)
                elif t == "end":
                    conds += [disc(r) == 0, disc(proj(r, "Ok.0")) == 0]
                else:
                    a = proj(proj(r, "Ok.0"), "Some.0")
                    conds += [disc(r) == 0, disc(proj(r, "Ok.0")) == 1]
                    if t in ("f", "t", "V", "h", "x"):
                        conds.append(disc(a) == order["Short"])
                        c = asint(proj(a, "Short.0"))
                        if t == "x":
                            conds.append(z3.And(c != ord("f"), c != ord("t"), c != ord("V"), c != ord("h"), c > 0))
                        else:
                            conds.append(c == ord(t))
                    elif t in ("version", "help", "other"):
                        conds.append(disc(a) == order["Long"])
                        s = asstr(proj(a, "Long.0"))
                        if t == "other":
                            conds.append(z3.And(s != z3.StringVal("version"), s != z3.StringVal("help")))
                        else:
                            conds.append(s == z3.StringVal(t))
                    else:
                        conds.append(disc(a) == order["Value"])
                outs.append((z3.And(conds), r, t))
            res = []
            for cond, r, t in outs:
                res.append((cond, r))
            g["pending_tokens"] = [(str(r), t) for _, r, t in outs]
            return res
        if fnname.endswith("Parser::value"):
            r = fresh("value")
            g["values"] = g.get("values", ()) + (r,)
            return [(disc(r) == 0, r), (disc(r) == 1, r)]
        if "ValueExt>::parse_with" in fnname:
            r = fresh("parsed")
            g["parsed"] = g.get("parsed", ()) + (r,)
            p.pc.append(z3.And(disc(proj(r, "Ok.0")) >= 0, disc(proj(r, "Ok.0")) <= 3))
            return [(disc(r) == 0, r), (disc(r) == 1, r)]
        if fnname.endswith("process::exit"):
            p.trace.append(("exit", argv[0]))
            raise X.Done("exit", argv[0])
        if re.search(r"^(std::io::)?stdout$", fnname) or fnname.endswith("Stdout::lock"):
            p.trace.append(("stdout",))
            return fresh("stdout")
        if re.search(r"^(std::io::)?stderr$", fnname) or fnname.endswith("Stderr::lock"):
            p.trace.append(("stderr",))
            return fresh("stderr")
        if fnname.endswith("print_long_help"):
            # a local function that writes the long help to io::stdout() itself
            p.trace.append(("stdout",))
            p.trace.append(("help_or_version",))
            return fresh("unit")
        if fnname.endswith("::write_fmt") or "write_short_help" in fnname:
            p.trace.append(("help_or_version",))
            return fresh("unit")
        if "Arg::<'_>::unexpected" in fnname or fnname.endswith("::unexpected"):
            p.trace.append(("unexpected",))
            return fresh("unexpected")
        if "as Into<lexopt::Error>>::into" in fnname:
            p.trace.append(("custom_error",))
            return fresh("lexerr")
        if re.search(r"Vec::<PathBuf>::push$", fnname):
            g["pushed"] = g.get("pushed", 0) + 1
            return fresh("unit")
        if re.search(r"Vec::<PathBuf>::new$", fnname):
            return fresh("vec")
        return None

    ex = X.Exec(mir, h)

    def token_list(p):
        """the token classes of this path, read off the names of the fork values in the path condition"""
        seen = {}
        for c in p.pc:
            for m in re.finditer(r"next_(\w+?)#(\d+)", str(c)):
                seen[int(m.group(2))] = m.group(1)
        return [seen[k] for k in sorted(seen)]

    def expected(toks, p):
        """reference grammar over token classes; value()/parse_with outcomes are read from the path"""
        g = p.ghost
        values = list(g.get("values", []))
        parsed = list(g.get("parsed", []))
        frm = to = None
        npaths = 0
        for t in toks:
            if t == "err":
                return ("err",)
            if t == "end":
                return ("ok", frm, to, npaths)
            if t in ("f", "t"):
                if (frm if t == "f" else to) is not None:
                    return ("err",)
                if not values:
                    return ("bug", "option -%s consumed no value" % t)
                v = values.pop(0)
                if ex.valid(p, disc(v) == 1)[0]:
                    return ("err",)
                if not parsed:
                    return ("bug", "option -%s value not parsed as a format name" % t)
                pr = parsed.pop(0)
                if ex.valid(p, disc(pr) == 1)[0]:
                    return ("err",)
                if t == "f":
                    frm = proj(pr, "Ok.0")
                else:
                    to = proj(pr, "Ok.0")
            elif t in ("V", "version", "h", "help"):
                return ("exit0",)
            elif t == "value":
                npaths += 1
            else:
                return ("err",)
        return ("running",)

    def fin(p, how, value):
        stats["paths"] += 1
        toks = token_list(p)
        want = expected(toks, p)
        names = [e[0] for e in p.trace]
        if want[0] == "bug":
            rep.bad("K2", want[1], {"kind": "argv", "tokens": toks})
            return
        if how == "exit":
            stats["exit0"] += 1
            if want[0] != "exit0" or not ex.valid(p, asint(value) == 0)[0]:
                rep.bad("K2", "only -V/--version/-h/--help end argument parsing with exit(0)", {"kind": "argv", "tokens": toks})
            if "stderr" in names or "help_or_version" not in names or "stdout" not in names:
                rep.bad("K2", "help/version text goes to standard output only", {"kind": "argv", "tokens": toks})
            return
        if how != "return":
            return
        is_err = ex.valid(p, disc(value) == 1)[0]
        is_ok = ex.valid(p, disc(value) == 0)[0]
        if want[0] == "err":
            stats["err"] += 1
            if not is_err:
                rep.bad("K2", "an invalid command line (lexopt error, repeated -f/-t, bad format name, unknown option) is rejected", {"kind": "argv", "tokens": toks})
        elif want[0] == "ok":
            stats["ok"] += 1
            if not is_ok:
                rep.bad("K2", "a valid command line is accepted", {"kind": "argv", "tokens": toks})
                return
            cli = proj(value, "Ok.0")
            fields = {}
            for c in p.pc:
                s = str(c)
            # Cli { input_pathnames, from, to }: the aggregate recorded named fields
            frm = proj(cli, "n_from")
            to = proj(cli, "n_to")
            _, wf, wt, npaths = want
            if wf is None:
                okf = ex.valid(p, disc(frm) == 0)[0]
            else:
                okf = ex.valid(p, z3.And(disc(frm) == 1, proj(frm, "Some.0") == wf))[0]
            if wt is None:
                okt = ex.valid(p, disc(to) == FMT["Json"])[0]
            else:
                okt = ex.valid(p, to == wt)[0]
            if not okf:
                rep.bad("K2", "-f sets the source format; without -f it is absent", {"kind": "argv", "tokens": toks})
            if not okt:
                rep.bad("K2", "-t sets the target format; the default is JSON", {"kind": "argv", "tokens": toks})
            if p.ghost.get("pushed", 0) != npaths:
                rep.bad("K2", "every positional argument becomes an input, in order", {"kind": "argv", "tokens": toks})
        else:
            rep.bad("K2", "argument parsing ended early", {"kind": "argv", "tokens": toks})
    ex.run(fn, X.Path(), None, fin)
    rep.absorb(ex)
    if not (stats["err"] and stats["ok"] and stats["exit0"]):
        raise Inconclusive("vacuity: parse_args exploration did not reach every outcome (%s)" % stats)
    rep.witnesses.append("parse_args: %d paths (%d accepted, %d rejected, %d help/version), token sequences <= %d"
                         % (stats["paths"], stats["ok"], stats["err"], stats["exit0"], max_tokens))
    rep.samples.append({"query": "K2.parse_args", "paths": stats["paths"], "bound": "<= %d tokens over 11 symbolic token classes" % max_tokens,
                        "claim": "Err iff lexopt error / repeated -f or -t / invalid format name / unknown option; -V,--version,-h,--help exit(0) after writing to stdout only; to defaults to JSON"})
    return stats


# -------------------------------------------------------------------------------------------------
# K7: the reader-mode document loops of the library crate (behind Box<dyn Read>, out of Kani's reach)
# -------------------------------------------------------------------------------------------------

def _const_name(v):
    return getattr(v, "mir_const", None) or v.__dict__.get("mir_const")


def k7_loop(mir, rep, fn_pattern, label, max_docs=3):
    """msgpack::transcode / json::transcode / yaml::transcode_reader: one transcode_from per document,
    in order; a failure of the reader, the parser or the output ends the loop with Err; Ok only at a clean end."""
    fn = mir.find(fn_pattern)
    stats = {"paths": 0, "ok": 0, "err": 0, "docs": 0}

    def h(ex, p, name, argv, dst, dst_type, cur_fn):
        g = p.ghost
        if name == "drop":
            return None
        if re.search(r"as Into<Input<'_>>>::into$", name):
            r = fresh("input")
            g["input"] = r
            return [(disc(r) == X.VARIANTS.get("Input::Slice", 0), r), (disc(r) == X.VARIANTS.get("Input::Reader", 1), r)]
        if re.search(r"BufRead>::fill_buf$", name):
            n = g.get("fills", 0)
            g["fills"] = n + 1
            out = []
            for kind in (["err", "empty"] if n >= max_docs else ["err", "empty", "data"]):
                r = fresh("fill_" + kind)
                if kind == "err":
                    out.append((disc(r) == 1, r))
                else:
                    out.append((z3.And(disc(r) == 0, asint(proj(proj(r, "Ok.0"), "isempty")) == (1 if kind == "empty" else 0)), r))
            p.trace.append(("fill_buf",))
            return out
        if re.search(r"<impl \[u8\]>::is_empty$", name):
            r = fresh("isempty")
            p.pc.append(asint(r) == asint(proj(argv[0], "isempty")))
            if "slice_rest" in g or re.search(r"msgpack", fn.name):
                # slice branch: the rest of the input shrinks; bound the number of chunks
                pass
            return r
        if re.search(r"^next_value_size$|::next_value_size$", name):
            n = g.get("sized", 0)
            g["sized"] = n + 1
            r = fresh("nvs")
            p.trace.append(("next_value_size", _const_name(argv[1])))
            return [(disc(r) == 0, r), (disc(r) == 1, r)]
        if re.search(r"<impl \[u8\]>::split_at$", name):
            r = fresh("split")
            n = g.get("splits", 0)
            g["splits"] = n + 1
            # the rest is empty after at most max_docs chunks
            if n + 1 >= max_docs:
                p.pc.append(asint(proj(proj(r, "f1"), "isempty")) == 1)
            else:
                p.pc.append(z3.Or(asint(proj(proj(r, "f1"), "isempty")) == 0, asint(proj(proj(r, "f1"), "isempty")) == 1))
            return r
        if re.search(r"Deserializer::<.*>::(new|from_read_ref|from_reader|from_str)$", name):
            p.trace.append(("de_new", re.search(r"::(\w+)$", name).group(1), argv[0] if argv else None))
            return fresh("de")
        if re.search(r"::set_max_depth$", name):
            p.trace.append(("set_max_depth", _const_name(argv[1])))
            return fresh("unit")
        if re.search(r"Deserializer::<.*>::end$", name):
            n = g.get("ends", 0)
            g["ends"] = n + 1
            r = fresh("end")
            p.trace.append(("end", r))
            if n >= max_docs:
                p.pc.append(disc(r) == 0)
                return r
            return [(disc(r) == 0, r), (disc(r) == 1, r)]
        if re.search(r"Result::<.*>::is_err$", name):
            r = fresh("is_err")
            p.pc.append(asint(r) == z3.If(disc(argv[0]) == 1, 1, 0))
            return r
        m = re.search(r"(Result|Option)::<.*>::(is_ok_and|is_some_and|is_none_or)::<", name)
        if m:
            # executed from the closure's own MIR
            cm = re.findall(r"\{closure@[^}]*\}", name)
            body = closure_by_type(mir, cm[-1])
            res = argv[0]
            yes_disc = 0 if m.group(1) == "Result" else 1
            payload = proj(res, "Ok.0" if m.group(1) == "Result" else "Some.0")
            out = []
            other = fresh("combinator")
            p0 = p.clone()
            p0.pc.append(disc(res) != yes_disc)
            if ex.feasible(p0):
                out.append((z3.And(disc(res) != yes_disc, asint(other) == (1 if m.group(2) == "is_none_or" else 0)), other))
            p1 = p.clone()
            p1.pc.append(disc(res) == yes_disc)
            if ex.feasible(p1):
                results = []
                q0 = p1.clone()
                q0.env = {}
                ex.run(body, q0, [argv[1], payload], lambda qp, how, value: results.append((qp, how, value)))
                for qp, how, value in results:
                    if how == "return":
                        extra = qp.pc[len(p.pc):]
                        out.append((z3.And(extra) if extra else z3.BoolVal(True), value))
            return out
        if re.search(r"Result::<.*>::is_ok$", name):
            r = fresh("is_ok")
            p.pc.append(asint(r) == z3.If(disc(argv[0]) == 0, 1, 0))
            return r
        if re.search(r"as Output>::transcode_(from|value)", name):
            r = fresh("tf")
            p.trace.append(("transcode_from", r))
            return [(disc(r) == 0, r), (disc(r) == 1, r)]
        if re.search(r"Encoder::<.*>::from_reader$", name):
            r = fresh("enc")
            p.trace.append(("from_reader", r))
            return [(disc(r) == 0, r), (disc(r) == 1, r)]
        if re.search(r"Chunker::<.*>::new$", name):
            return fresh("chunker")
        if re.search(r"as Iterator>::next$", name):
            n = g.get("nexts", 0)
            g["nexts"] = n + 1
            out = []
            for kind in (["none", "err"] if n >= max_docs else ["none", "err", "doc"]):
                r = fresh("it_" + kind)
                if kind == "none":
                    out.append((disc(r) == 0, r))
                elif kind == "err":
                    out.append((z3.And(disc(r) == 1, disc(proj(r, "Some.0")) == 1), r))
                else:
                    out.append((z3.And(disc(r) == 1, disc(proj(r, "Some.0")) == 0), r))
            p.trace.append(("chunk_next",))
            return out
        if re.search(r"(^|::)from_utf8$", name):
            r = fresh("utf8")
            return [(disc(r) == 0, r), (disc(r) == 1, r)]
        if re.search(r"Document::content$", name):
            c = fresh("content")
            p.trace.append(("content", argv[0], c))
            return c
        return None

    ex = X.Exec(mir, h)

    def fin(p, how, value):
        stats["paths"] += 1
        if how != "return":
            if how not in ("dead", "unreachable"):
                rep.bad("K7." + label, "document loop ends with %s" % how, {"kind": "loop"})
            return
        names = [e[0] for e in p.trace]
        is_ok = ex.valid(p, disc(value) == 0)[0]
        is_err = ex.valid(p, disc(value) == 1)[0]
        stats["ok" if is_ok else "err"] += 1
        stats["docs"] += names.count("transcode_from")
        failures = []
        for c in p.pc:
            s = str(c)
            if re.match(r"^disc\((fill_err|nvs|tf|enc|utf8)#\d+\) == 1$", s) or re.search(r"it_err#\d+", s) and "== 1" in s:
                failures.append(s)
        failed = bool(failures)
        # a failed end() is not a failure: it means "another document follows" (json reader loop)
        if failed and not is_err:
            rep.bad("K7." + label, "a failure of the reader, the size calculator, the parser stream or the output is returned as Err, never swallowed",
                    {"kind": "loop", "events": names[-8:]})
        if not failed and not is_ok:
            rep.bad("K7." + label, "without any failure the loop returns Ok at the clean end of input", {"kind": "loop", "events": names[-8:]})
        # nothing happens after the first failure
        for i, e in enumerate(p.trace):
            if e[0] == "transcode_from" and ex.valid(p, disc(e[1]) == 1)[0]:
                if any(n in ("transcode_from", "fill_buf", "de_new", "chunk_next", "end") for n in names[i + 1:]):
                    rep.bad("K7." + label, "nothing is read or translated after the output failed", {"kind": "loop", "events": names})
        # every rmp-serde deserializer gets the depth limit before it is used
        if "msgpack" in fn.name:
            for i, e in enumerate(p.trace):
                if e[0] == "de_new":
                    nxt = p.trace[i + 1] if i + 1 < len(p.trace) else None
                    if not nxt or nxt[0] != "set_max_depth" or "DEPTH_LIMIT" not in str(nxt[1]):
                        rep.bad("K7." + label, "every MessagePack deserializer gets set_max_depth(DEPTH_LIMIT) before use", {"kind": "loop", "next": str(nxt)})
                if e[0] == "next_value_size" and "DEPTH_LIMIT" not in str(e[1]):
                    rep.bad("K7." + label, "the size calculator is called with DEPTH_LIMIT", {"kind": "loop"})
        # the text handed to a parser is the whole validated input / the chunk of this document, untouched
        utf8s = _consts_named(p, "utf8")
        for i, e in enumerate(p.trace):
            if e[0] == "de_new" and e[1] == "from_str" and e[2] is not None:
                conts = [x for x in p.trace[:i] if x[0] == "content"]
                if conts:
                    if not ex.valid(p, e[2] == conts[-1][2])[0]:
                        rep.bad("K7." + label, "the YAML parser is given exactly the chunk of the document just cut", {"kind": "loop"})
                elif utf8s and utf8s[0] != "none#0":
                    u = z3.Const(utf8s[0], X.V)
                    if not ex.valid(p, e[2] == proj(u, "Ok.0"))[0]:
                        rep.bad("K7." + label, "the parser is given the whole validated input text, unmodified (no trimming, no re-slicing)", {"kind": "loop"})
        # JSON reader loop: a document is translated only after end() said that more input follows
        if label == "json":
            for i, e in enumerate(p.trace):
                if e[0] == "transcode_from" and any(x[0] == "end" for x in p.trace):
                    prev = [x for x in p.trace[:i] if x[0] in ("end", "transcode_from")]
                    if not prev or prev[-1][0] != "end" or not ex.valid(p, disc(prev[-1][1]) == 1)[0]:
                        rep.bad("K7." + label, "a JSON document is translated only after end() reported that more input follows (an empty stream translates nothing and succeeds)", {"kind": "loop"})
        # one transcode_from per document: between two of them the source must have been consulted
        last = None
        for e in p.trace:
            if e[0] == "transcode_from":
                if last == "transcode_from":
                    rep.bad("K7." + label, "exactly one transcode_from per document", {"kind": "loop"})
            if e[0] in ("transcode_from", "fill_buf", "end", "chunk_next", "next_value_size"):
                last = e[0]
    ex.run(fn, X.Path(), None, fin)
    rep.absorb(ex)
    if not (stats["ok"] and stats["err"] and stats["docs"]):
        raise Inconclusive("vacuity: %s exploration did not reach every outcome (%s)" % (label, stats))
    rep.witnesses.append("%s: %d paths (%d Ok, %d Err), %d transcode_from calls, <= %d documents" % (label, stats["paths"], stats["ok"], stats["err"], stats["docs"], max_docs))
    rep.samples.append({"query": "K7." + label, "paths": stats["paths"], "bound": "<= %d documents per run" % max_docs,
                        "claim": "one transcode_from per document; reader/parser/output failure => Err and nothing afterwards; Ok only at a clean end; (MessagePack) set_max_depth(DEPTH_LIMIT) before use"})
    return stats


# -------------------------------------------------------------------------------------------------
# K8: Encoder::from_reader - the detector sees four bytes taken from the reader itself (for every
#     windowing, because io::copy loops until Take is exhausted) and they are chained back in front
# -------------------------------------------------------------------------------------------------

def k8_from_reader(mir, rep):
    fn = mir.find(r"encoding::<impl.*>::from_reader$")
    info = {}
    stats = {"paths": 0, "ok": 0, "err": 0}

    def note(v, d):
        info[str(v)] = d
        return v

    def h(ex, p, name, argv, dst, dst_type, cur_fn):
        if name == "drop":
            return None
        if re.search(r"ArrayBuffer::<.*>::new$", name):
            return note(fresh("prefix"), {"kind": "prefix"})
        if re.search(r"Read>::by_ref$", name):
            return argv[0]
        if re.search(r"Read>::take$", name):
            lim = None
            for (k, c), v in ex.consts.items():
                if v is argv[1]:
                    lim = c
            p.trace.append(("take", argv[0], argv[1]))
            return note(fresh("take"), {"kind": "take", "of": argv[0], "limit": argv[1]})
        if re.search(r"(^|::)io::copy::<", name) or re.search(r"^std::io::copy", name):
            p.trace.append(("copy", info.get(str(argv[0])), info.get(str(argv[1])), argv[0], argv[1]))
            r = fresh("copied")
            return [(disc(r) == 0, r), (disc(r) == 1, r)]
        if re.search(r"ArrayBuffer::<.*>::unread$", name):
            return note(fresh("unread"), {"kind": "unread", "of": argv[0]})
        if re.search(r"Encoding::detect$", name):
            p.trace.append(("detect", info.get(str(argv[0])), argv[0]))
            return note(fresh("encoding"), {"kind": "encoding"})
        if re.search(r"Read>::chain::<", name):
            p.trace.append(("chain", argv[0], argv[1]))
            return note(fresh("chain"), {"kind": "chain", "first": argv[0], "second": argv[1]})
        if re.search(r"Encoder::<.*>::new$", name):
            p.trace.append(("encoder_new", info.get(str(argv[0])), info.get(str(argv[1])), argv[0]))
            return fresh("encoder")
        return None

    ex = X.Exec(mir, h)
    reader = fresh("reader")

    def fin(p, how, value):
        stats["paths"] += 1
        if how != "return":
            return
        tr = {e[0]: e for e in p.trace}
        copy = tr.get("copy")
        copy_failed = any(re.match(r"^disc\(copied#\d+\) == 1$", str(c)) for c in p.pc)
        if copy_failed and not ex.valid(p, disc(value) == 1)[0]:
            rep.bad("K8.from_reader", "a reader failure while peeking is returned as Err", {"kind": "from_reader"})
            return
        if ex.valid(p, disc(value) == 1)[0]:
            stats["err"] += 1
            return
        stats["ok"] += 1
        good = True
        why = ""
        if not copy or not copy[1] or copy[1].get("kind") != "take" or not copy[2] or copy[2].get("kind") != "prefix":
            good, why = False, "the peek does not copy from reader.take(..) into the prefix buffer until the limit is reached"
        elif not ex.valid(p, copy[1]["of"] == reader)[0]:
            good, why = False, "the peek does not read from the reader itself"
        elif not ex.valid(p, asint(copy[1]["limit"]) == 4)[0] and "DETECT_LEN" not in str(getattr(copy[1]["limit"], "mir_const", "")) and "DETECT_LEN" not in str(copy[1]["limit"].__dict__.get("mir_const", "")):
            good, why = False, "the peek is not limited to Encoding::DETECT_LEN bytes"
        det = tr.get("detect")
        if good and (not det or not det[1] or det[1].get("kind") != "unread" or not ex.valid(p, det[1]["of"] == copy[4])[0]):
            good, why = False, "the detector is not given the bytes that were peeked into the prefix buffer"
        ch = tr.get("chain")
        if good and (not ch or not ex.valid(p, z3.And(ch[1] == copy[4], ch[2] == reader))[0]):
            good, why = False, "the peeked bytes are not chained back in front of the rest of the reader"
        en = tr.get("encoder_new")
        if good and (not en or not en[1] or en[1].get("kind") != "chain" or not en[2] or en[2].get("kind") != "encoding"):
            good, why = False, "the encoder is not built over prefix.chain(reader) with the detected encoding"
        if not good:
            rep.bad("K8.from_reader", "encoding detection peeks exactly DETECT_LEN bytes through io::copy(reader.take(..)) - i.e. for every windowing of the source - and chains them back: " + why,
                    {"kind": "from_reader"})
    ex.run(fn, X.Path(), [reader], fin)
    rep.absorb(ex)
    if not stats["ok"]:
        raise Inconclusive("vacuity: from_reader exploration did not reach the Ok outcome (%s)" % stats)
    rep.witnesses.append("Encoder::from_reader: %d paths (%d Ok, %d Err)" % (stats["paths"], stats["ok"], stats["err"]))
    rep.samples.append({"query": "K8.from_reader", "paths": stats["paths"],
                        "claim": "detect(prefix.unread()) where prefix was filled by io::copy(reader.by_ref().take(DETECT_LEN)); Encoder::new(prefix.chain(reader), detected); copy failure => Err"})


# -------------------------------------------------------------------------------------------------
# K9: yaml::chunker::Chunker::next - one call from an arbitrary state over the libyaml event contract
# -------------------------------------------------------------------------------------------------

EV = {"STREAM_END": 2, "DOC_START": 3, "DOC_END": 4, "SCALAR": 6, "SEQ_START": 7, "MAP_START": 9}
EV_CLASSES = ["ERR", "STREAM_END", "DOC_START", "DOC_END", "SCALAR", "SEQ_START", "MAP_START", "OTHER"]


def k9_chunker_next(mir, rep, max_events=3):
    fn = mir.find(r"^chunker::<impl.*>::next$")
    body = "\n".join("\n".join(b) for b in fn.blocks.values())
    fields = {}
    for m in re.finditer(r"\(\(\*_1\)\.(\d+): ([^)]+)\)", body):
        t = m.group(2)
        if "Parser<" in t:
            fields["parser"] = int(m.group(1))
        elif "Option<yaml::chunker::Document>" in t:
            fields["last"] = int(m.group(1))
        elif "Option<yaml::chunker::DocumentKind>" in t:
            fields["kind"] = int(m.group(1))
        elif t.strip() == "bool":
            fields["ended"] = int(m.group(1))
    if len(fields) < 4:
        raise Inconclusive("Chunker fields not identified: %s" % fields)
    KSC = X.VARIANTS.get("DocumentKind::Scalar", 0)
    KCO = X.VARIANTS.get("DocumentKind::Collection", 1)
    unwrap = pure_fn("unwrap", 1)
    from_utf8 = pure_fn("from_utf8", 1)
    stats = {"paths": 0, "docs": 0, "errs": 0, "nones": 0}

    def h(ex, p, name, argv, dst, dst_type, cur_fn):
        g = p.ghost
        if name == "drop":
            return None
        if re.search(r"Parser::<.*>::next_event$", name):
            n = g.get("events", 0)
            g["events"] = n + 1
            out = []
            classes = ["ERR", "STREAM_END"] if n >= max_events else EV_CLASSES
            for c in classes:
                r = fresh("ev_" + c)
                if c == "ERR":
                    out.append((disc(r) == 1, r))
                elif c == "OTHER":
                    t = disc(pure_fn("event_type", 1)(proj(r, "Ok.0")))
                    out.append((z3.And(disc(r) == 0, t >= 0, t <= 10, z3.And([t != v for v in EV.values()])), r))
                else:
                    out.append((z3.And(disc(r) == 0, disc(pure_fn("event_type", 1)(proj(r, "Ok.0"))) == EV[c]), r))
            return out
        if re.search(r"Event::event_type$", name):
            return pure_fn("event_type", 1)(argv[0])
        if re.search(r"Event::start_offset$", name):
            return pure_fn("start_offset", 1)(argv[0])
        if re.search(r"Event::end_offset$", name):
            return pure_fn("end_offset", 1)(argv[0])
        if re.search(r"Parser::<.*>::reader_mut$", name):
            return fresh("chunkreader")
        if re.search(r"ChunkReader::<.*>::trim_to_offset$", name):
            p.trace.append(("trim", argv[1]))
            return fresh("unit")
        if re.search(r"ChunkReader::<.*>::take_to_offset$", name):
            c = fresh("chunk")
            p.trace.append(("take", argv[1], c))
            return c
        if re.search(r"String::from_utf8$", name):
            return from_utf8(argv[0])
        if re.search(r"Result::<.*FromUtf8Error>::unwrap$", name):
            return unwrap(argv[0])
        if re.search(r"io::Error::new::<", name) or re.search(r"std::io::Error::new", name):
            r = fresh("ioerr")
            p.trace.append(("io_error_new", argv[0], argv[1], r))
            return r
        m = re.search(r"Option::<.*>::(take|get_or_insert)$", name)
        if m:
            target = ex.ref_target(p, cur_fn, ex.raw_args[0])
            if target is None:
                raise Inconclusive("Option::%s through an untracked reference" % m.group(1))
            old = ex.place(p, target)
            if m.group(1) == "take":
                none = fresh("none")
                p.pc.append(disc(none) == 0)
                ex.assign(p, target, none)
                return old
            new = fresh("inserted")
            p.pc.append(z3.If(disc(old) == 1, new == old, z3.And(disc(new) == 1, proj(new, "Some.0") == argv[1])))
            ex.assign(p, target, new)
            return proj(new, "Some.0")
        if re.search(r"Option::<.*>::map::<", name) and "Result::<" in name and "::Ok" in name:
            opt = argv[0]
            r = fresh("mapped")
            p.pc.append(disc(r) == disc(opt))
            p.pc.append(disc(proj(r, "Some.0")) == 0)
            p.pc.append(proj(proj(r, "Some.0"), "Ok.0") == proj(opt, "Some.0"))
            return r
        return None

    for last_some in (False, True):
        for kind in (None, KSC, KCO):
            for ended in (False, True):
                ex = X.Exec(mir, h)
                me = fresh("chunker")
                last0 = proj(me, "f%d" % fields["last"])
                kind0 = proj(me, "f%d" % fields["kind"])
                p0 = X.Path()
                p0.pc.append(disc(last0) == (1 if last_some else 0))
                p0.pc.append(disc(kind0) == (0 if kind is None else 1))
                if kind is not None:
                    p0.pc.append(disc(proj(kind0, "Some.0")) == kind)
                p0.pc.append(asint(proj(me, "f%d" % fields["ended"])) == (1 if ended else 0))
                doc0 = proj(last0, "Some.0")

                def fin(p, how, value, ex=ex, last_some=last_some, kind=kind, ended=ended, doc0=doc0):
                    stats["paths"] += 1
                    if how != "return":
                        if how not in ("dead", "unreachable"):
                            rep.bad("K9.chunker", "Chunker::next ends with %s" % how, {"kind": "chunker"})
                        return
                    seen = {}
                    for c in p.pc:
                        for m in re.finditer(r"ev_([A-Z_]+)#(\d+)", str(c)):
                            seen[int(m.group(2))] = (m.group(1), z3.Const("ev_%s#%s" % (m.group(1), m.group(2)), X.V))
                    evs = [seen[k] for k in sorted(seen)]
                    pre = "pre-state last=%s kind=%s ended=%s, events=%s" % (last_some, kind, ended, [e[0] for e in evs])
                    wit = {"kind": "chunker", "case": pre}
                    # ---- reference semantics of one call
                    last = doc0 if last_some else None   # term or None
                    kd = kind                             # None / KSC / KCO
                    ops = []
                    want = None
                    made = 0
                    if ended:
                        want = ("none",)
                        if evs:
                            rep.bad("K9.chunker", "after the stream ended the parser is not consulted again", wit)
                            return
                    for cls, r in evs:
                        if want is not None:
                            break
                        ev = proj(r, "Ok.0")
                        if cls == "ERR":
                            want = ("err", proj(r, "Err.0"))
                        elif cls == "DOC_START":
                            ops.append(("trim", pure_fn("start_offset", 1)(ev)))
                            kd = None
                            if last is not None:
                                want = ("doc", last)
                                last = None
                        elif cls == "SCALAR":
                            kd = KSC if kd is None else kd
                        elif cls in ("SEQ_START", "MAP_START"):
                            kd = KCO if kd is None else kd
                        elif cls == "DOC_END":
                            ops.append(("take", pure_fn("end_offset", 1)(ev)))
                            last = ("new", len([o for o in ops if o[0] == "take"]) - 1, kd)
                            kd = None
                        elif cls == "STREAM_END":
                            want = ("doc", last) if last is not None else ("none",)
                            last = None
                            ended_after = True
                    if want is None:
                        rep.bad("K9.chunker", "Chunker::next returned although no returning event was seen", wit)
                        return
                    # ---- compare the ChunkReader operations
                    got_ops = [e for e in p.trace if e[0] in ("trim", "take")]
                    if len(got_ops) != len(ops) or any(g[0] != w[0] or not ex.valid(p, g[1] == w[1])[0] for g, w in zip(got_ops, ops)):
                        rep.bad("K9.chunker", "DOCUMENT-START trims the capture buffer to the event's start offset and DOCUMENT-END cuts it at the event's end offset, in event order", wit)
                        return
                    takes = [e for e in p.trace if e[0] == "take"]

                    def doc_matches(val, d):
                        if isinstance(d, tuple):
                            _, idx, k = d
                            chunk = takes[idx][2]
                            ok = ex.valid(p, proj(val, "n_content") == unwrap(from_utf8(chunk)))[0]
                            kv = proj(val, "n_kind")
                            ok = ok and ex.valid(p, disc(kv) == (0 if k is None else 1))[0]
                            if k is not None:
                                ok = ok and ex.valid(p, disc(proj(kv, "Some.0")) == k)[0]
                            return ok
                        return ex.valid(p, val == d)[0]
                    if want[0] == "none":
                        stats["nones"] += 1
                        if not ex.valid(p, disc(value) == 0)[0]:
                            rep.bad("K9.chunker", "None exactly when the stream has ended and no document is pending", wit)
                    elif want[0] == "err":
                        stats["errs"] += 1
                        ok = ex.valid(p, z3.And(disc(value) == 1, disc(proj(value, "Some.0")) == 1))[0]
                        news = [e for e in p.trace if e[0] == "io_error_new"]
                        ok = ok and len(news) == 1 and ex.valid(p, z3.And(proj(proj(value, "Some.0"), "Err.0") == news[0][3], news[0][2] == want[1]))[0]
                        ok = ok and "InvalidData" in str(news[0][1])
                        if not ok:
                            rep.bad("K9.chunker", "a parser error is returned as Some(Err(io::Error::new(InvalidData, <the parser's error>)))", wit)
                    else:
                        stats["docs"] += 1
                        ok = ex.valid(p, z3.And(disc(value) == 1, disc(proj(value, "Some.0")) == 0))[0]
                        if not ok or not doc_matches(proj(proj(value, "Some.0"), "Ok.0"), want[1]):
                            rep.bad("K9.chunker", "a document is returned only when the next DOCUMENT-START or STREAM-END is seen (deferred by one), and it is exactly the chunk cut at its DOCUMENT-END with the kind of its first content event", wit)
                    # ---- post-state
                    post = p.env.get("_1")
                    if post is None:
                        return
                    plast = proj(post, "f%d" % fields["last"])
                    pkind = proj(post, "f%d" % fields["kind"])
                    pend = proj(post, "f%d" % fields["ended"])
                    want_ended = ended or (evs and evs[-1][0] == "STREAM_END" and want[0] != "err")
                    good = ex.valid(p, asint(pend) == (1 if want_ended else 0))[0]
                    if last is None:
                        good = good and ex.valid(p, disc(plast) == 0)[0]
                    else:
                        good = good and ex.valid(p, disc(plast) == 1)[0] and doc_matches(proj(plast, "Some.0"), last)
                    good = good and ex.valid(p, disc(pkind) == (0 if kd is None else 1))[0]
                    if kd is not None:
                        good = good and ex.valid(p, disc(proj(pkind, "Some.0")) == kd)[0]
                    if not good:
                        rep.bad("K9.chunker", "post-state: pending document, kind of the document in progress and the stream-ended flag follow the event sequence", wit)
                ex.run(fn, p0, [me], fin)
                rep.absorb(ex)
    if not (stats["docs"] and stats["errs"] and stats["nones"]):
        raise Inconclusive("vacuity: chunker exploration did not reach every outcome (%s)" % stats)
    rep.witnesses.append("Chunker::next: %d paths over 12 pre-states (%d documents returned, %d errors, %d None), <= %d events per call"
                         % (stats["paths"], stats["docs"], stats["errs"], stats["nones"], max_events))
    rep.samples.append({"query": "K9.chunker", "paths": stats["paths"], "bound": "one call from each of 12 abstract pre-states, <= %d libyaml events per call over 8 event classes" % max_events,
                        "claim": "deferred-by-one document delivery, cut points from the event marks, kind from the first content event, parser error => InvalidData error, None after STREAM-END"})
    return stats


# -------------------------------------------------------------------------------------------------
# K10: toml::Output (one step from an arbitrary `used` state)   K11: Translator::translate dispatch
# K12: json/yaml/msgpack Output framing
# -------------------------------------------------------------------------------------------------

def _field_index(fn, selfvar, typepat):
    body = "\n".join("\n".join(b) for b in fn.blocks.values())
    for m in re.finditer(r"\(\(\*%s\)\.(\d+): ([^)]+)\)" % selfvar, body):
        if re.search(typepat, m.group(2)):
            return int(m.group(1))
    return None


def k10_toml_output(mir, rep):
    """every two-call history of toml::Output, from the state Output::new builds"""
    TABLE = 6  # toml::Value::Table is the 7th variant of the real enum (String, Integer, Float, Boolean, Datetime, Array, Table)
    entries = {"from": mir.find(r"^toml::<impl.*>::transcode_from$"), "value": mir.find(r"^toml::<impl.*>::transcode_value$")}
    newfn = [f for n, f in mir.functions.items() if re.match(r"^toml::<impl.*>::new$", n)]
    if len(newfn) != 1:
        raise Inconclusive("toml::Output::new not found")
    stats = {"first": 0, "written": 0, "second": 0, "second_after_silent_first": 0}

    def h(ex, p, name, argv, dst, dst_type, cur_fn):
        if name == "drop":
            return None
        if re.search(r"toml::Value as Deserialize<'_>>::deserialize::<|toml::Value::try_from::<", name):
            p.trace.append(("build_value", "deserialize" if "Deserialize" in name else "try_from", argv[0] if argv else None))
            r = fresh("built")
            return [(disc(r) == 0, r), (disc(r) == 1, r)]
        if re.search(r"toml::to_string_pretty::<", name):
            p.trace.append(("render",))
            r = fresh("rendered")
            return [(disc(r) == 0, r), (disc(r) == 1, r)]
        if re.search(r"String::as_bytes$", name):
            return argv[0]
        if re.search(r"String::len$|<impl \[u8\]>::len$|<impl str>::len$", name):
            r = fresh("len")
            p.pc.append(asint(r) >= 0)
            return r
        if re.search(r"io::Write>::write_all$", name):
            p.trace.append(("write_all",))
            r = fresh("written")
            return [(disc(r) == 0, r), (disc(r) == 1, r)]
        if re.search(r"io::Write>::(write|write_fmt|write_vectored)$", name):
            p.trace.append(("other_write",))
            return fresh("w")
        if re.search(r"TomlOutputError as Into<", name):
            r = fresh("tomlerr")
            p.pc.append(proj(r, "why") == argv[0])
            return r
        return None

    ex = X.Exec(mir, h)
    ex.inline = {r"::ensure_one_use$", r"::output_value$"}
    # initial state
    inits = []
    ex.run(newfn[0], X.Path(), [fresh("writer")], lambda p, how, value: inits.append((p, value)) if how == "return" else None)
    if len(inits) != 1:
        raise Inconclusive("Output::new has %d paths" % len(inits))
    p_init, me0 = inits[0]

    def check_first(p, value, label):
        names = [e[0] for e in p.trace]
        wit = {"kind": "toml_output", "call": "first, " + label, "events": names}
        is_ok = ex.valid(p, disc(value) == 0)[0]
        if names.count("build_value") != 1:
            rep.bad("K10.toml_output", "the first document is deserialized into a TOML value exactly once", wit)
            return
        bv = [e for e in p.trace if e[0] == "build_value"][0]
        want_api = "deserialize" if label == "from" else "try_from"
        if bv[1] != want_api or not ex.valid(p, bv[2] == DOC1[0])[0]:
            rep.bad("K10.toml_output", "a deserializer is deserialized straight into toml::Value (so that the TOML value type itself refuses nulls, binary and oversized integers), a stored value goes through toml::Value::try_from", wit)
        built_ok = any(re.match(r"^disc\(built#\d+\) == 0$", str(c)) for c in p.pc)
        writes, renders = names.count("write_all"), names.count("render")
        if "other_write" in names or writes > 1:
            rep.bad("K10.toml_output", "at most one write_all, nothing else, reaches the writer", wit)
        if not built_ok:
            if is_ok or writes or renders:
                rep.bad("K10.toml_output", "a document the TOML value type refuses (null, unrepresentable) is an error and nothing is written", wit)
            return
        if not renders:
            if is_ok or writes:
                rep.bad("K10.toml_output", "a root that is not a table is refused and nothing is written", wit)
            return
        rendered_ok = any(re.match(r"^disc\(rendered#\d+\) == 0$", str(c)) for c in p.pc)
        if rendered_ok != (writes == 1):
            rep.bad("K10.toml_output", "a rendered table is written with exactly one write_all; a render error writes nothing", wit)
            return
        wrote_ok = any(re.match(r"^disc\(written#\d+\) == 0$", str(c)) for c in p.pc)
        if is_ok != (rendered_ok and wrote_ok):
            rep.bad("K10.toml_output", "success exactly when the one write_all succeeded", wit)
        if is_ok:
            stats["written"] += 1

    DOC1 = [None]
    for l1, f1 in entries.items():
        firsts = []
        p1 = p_init.clone()
        p1.trace = []
        DOC1[0] = fresh("doc1")
        ex.run(f1, p1, [me0, DOC1[0]], lambda p, how, value: firsts.append((p, value)) if how == "return" else None)
        for p, value in firsts:
            stats["first"] += 1
            check_first(p, value, l1)
            state = p.env.get("_1")
            first_events = [e[0] for e in p.trace]
            for l2, f2 in entries.items():
                p2 = p.clone()
                p2.env = {}
                p2.trace = []
                seconds = []
                ex.run(f2, p2, [state, fresh("doc2")], lambda q, how, value: seconds.append((q, value)) if how == "return" else None)
                for q, v2 in seconds:
                    stats["second"] += 1
                    if "write_all" not in first_events:
                        stats["second_after_silent_first"] += 1
                    names2 = [e[0] for e in q.trace]
                    why = proj(proj(v2, "Err.0"), "why")
                    multi = ex.valid(q, z3.And(disc(v2) == 1, disc(why) == X.VARIANTS.get("TomlOutputError::MultiDocument", 1)))[0]
                    if names2 or not multi:
                        rep.bad("K10.toml_output", "ANY second document or input - whatever became of the first one, including a refused one or an empty table that wrote zero bytes - is refused with MultiDocument before anything is pulled from it, and nothing is written",
                                {"kind": "toml_output", "first_call": l1, "first_events": first_events, "second_call": l2, "second_events": names2})
    rep.absorb(ex)
    if not (stats["written"] and stats["second_after_silent_first"]):
        raise Inconclusive("vacuity: toml::Output exploration did not reach every outcome (%s)" % stats)
    rep.witnesses.append("toml::Output: %d first-call paths (%d wrote a table), %d second-call paths (%d after a first call that wrote nothing)"
                         % (stats["first"], stats["written"], stats["second"], stats["second_after_silent_first"]))
    rep.samples.append({"query": "K10.toml_output", "claim": "first call: refused value / non-table root / render error => Err, nothing written; table => exactly one write_all; second call of either kind after ANY first call: MultiDocument before anything is pulled",
                        "bound": "all two-call histories over both entry points from Output::new; all outcomes of Value construction, rendering and writing"})


def _consts_named(p, prefix):
    out = []
    for c in p.pc:
        for m in re.finditer(r"(%s#\d+)" % prefix, str(c)):
            if m.group(1) not in out:
                out.append(m.group(1))
    return out or ["none#0"]


def k11_translate_dispatch(mir, rep):
    fn = mir.find(r"Translator.*::translate$|^<impl at src/lib.rs.*>::translate$")
    FM = {"Json": "json", "Msgpack": "msgpack", "Toml": "toml", "Yaml": "yaml"}
    stats = {"paths": 0, "dispatched": 0, "undetected": 0}

    def h(ex, p, name, argv, dst, dst_type, cur_fn):
        if name == "drop":
            return None
        if re.search(r"(^|::)detect_format$", name):
            p.trace.append(("detect",))
            r = fresh("detected")
            opt = proj(r, "Ok.0")
            p.pc.append(z3.And(disc(proj(opt, "Some.0")) >= 0, disc(proj(opt, "Some.0")) <= 3))
            return [(disc(r) == 1, r), (z3.And(disc(r) == 0, disc(opt) == 0), r), (z3.And(disc(r) == 0, disc(opt) == 1), r)]
        m = re.search(r"(^|::)(json|msgpack|toml|yaml)::transcode::<", name)
        if m:
            p.trace.append(("transcode", m.group(2)))
            r = fresh("tr")
            return [(disc(r) == 0, r), (disc(r) == 1, r)]
        if re.search(r"as Into<error::Error>>::into$|as From<.*>>::from$", name):
            p.trace.append(("make_error", argv[0]))
            return fresh("err")
        return None

    ex = X.Exec(mir, h)
    me, inp, frm = fresh("translator"), fresh("handle"), fresh("from")
    p0 = X.Path()
    p0.pc.append(z3.Or(disc(frm) == 0, disc(frm) == 1))
    p0.pc.append(z3.And(disc(proj(frm, "Some.0")) >= 0, disc(proj(frm, "Some.0")) <= 3))

    def fin(p, how, value):
        stats["paths"] += 1
        if how != "return":
            return
        names = [e[0] for e in p.trace]
        trans = [e for e in p.trace if e[0] == "transcode"]
        named = ex.valid(p, disc(frm) == 1)[0]
        wit = {"kind": "dispatch", "named": named, "events": [e[:2] for e in p.trace if e[0] != "make_error"]}
        if named and "detect" in names:
            rep.bad("K11.dispatch", "detection is not run when a source format is named", wit)
        if not named and names.count("detect") != 1:
            rep.bad("K11.dispatch", "detection runs exactly once when no source format is named", wit)
        det_err = any(re.match(r"^disc\(detected#\d+\) == 1$", str(c)) for c in p.pc)
        det = _consts_named(p, "detected")[0]
        dv = z3.Const(det, X.V)
        none = (not named) and not det_err and ex.valid(p, disc(proj(dv, "Ok.0")) == 0)[0]
        if (not named) and (det_err or none):
            stats["undetected"] += 1
            if trans or not ex.valid(p, disc(value) == 1)[0]:
                rep.bad("K11.dispatch", "an undetectable input or a detection error is an error and nothing is translated", wit)
            if none:
                lits = [c for (k, c) in ex.consts if k == "s"]
                if not any("unable to detect input format" in c for c in lits):
                    rep.bad("K11.dispatch", "the error for an undetectable input says 'unable to detect input format'", wit)
            return
        sel = proj(frm, "Some.0") if named else proj(proj(dv, "Ok.0"), "Some.0")
        if len(trans) != 1:
            rep.bad("K11.dispatch", "exactly one format's transcoder runs", wit)
            return
        stats["dispatched"] += 1
        want = None
        for variant, mod in FM.items():
            if ex.valid(p, disc(sel) == X.VARIANTS["Format::" + variant])[0]:
                want = mod
        if want != trans[0][1]:
            rep.bad("K11.dispatch", "the named or detected format selects its own transcoder (a detected format is used exactly as if it had been named)", wit)
        tr_ok = any(re.match(r"^disc\(tr#\d+\) == 0$", str(c)) for c in p.pc)
        if ex.valid(p, disc(value) == 0)[0] != tr_ok:
            rep.bad("K11.dispatch", "the transcoder's verdict is the translation's verdict", wit)
    ex.run(fn, p0, [me, inp, frm], fin)
    rep.absorb(ex)
    if not (stats["dispatched"] >= 8 and stats["undetected"]):
        raise Inconclusive("vacuity: translate exploration did not reach every outcome (%s)" % stats)
    rep.witnesses.append("Translator::translate: %d paths (%d dispatched, %d undetected/detection errors)" % (stats["paths"], stats["dispatched"], stats["undetected"]))
    rep.samples.append({"query": "K11.dispatch", "paths": stats["paths"], "claim": "named => no detection, that format's transcoder once; unnamed => detection once, its answer used as if named; none/error => Err, nothing translated"})


def k12_output_framing(mir, rep):
    """json / yaml / msgpack Output::{transcode_from, transcode_value}: framing writes and error propagation"""
    specs = [("json", "after", "\n"), ("yaml", "before", "---\n"), ("msgpack", None, None)]
    for mod, where, text in specs:
        for entry in ("transcode_from", "transcode_value"):
            fn = mir.find(r"^%s::<impl.*>::%s$" % (mod, entry))
            stats = {"paths": 0, "ok": 0}

            def h(ex, p, name, argv, dst, dst_type, cur_fn):
                if name == "drop":
                    return None
                if re.search(r"::to_writer::<", name):
                    p.trace.append(("writer_use", argv[0]))
                if re.search(r"(^|::)transcode::<|stream::transcode::<|::to_writer::<|Serialize>::serialize::<", name):
                    p.trace.append(("body",))
                    r = fresh("body")
                    return [(disc(r) == 0, r), (disc(r) == 1, r)]
                if re.search(r"Arguments::<.*>::(new|from_str)", name) or "Arguments::<'_>::" in name:
                    s = None
                    for (k, c), v in ex.consts.items():
                        if k == "s" and v is argv[0]:
                            s = c
                    a = fresh("fmtargs")
                    p.ghost = dict(p.ghost)
                    p.ghost["fmt:" + str(a)] = s
                    return a
                if re.search(r"Serializer::<.*>::new$|Serializer::new$|::to_writer::<", name):
                    p.trace.append(("writer_use", argv[0]))
                    if "to_writer" not in name:
                        return fresh("ser")
                if re.search(r"io::Write>::write_fmt$", name):
                    p.trace.append(("writer_use", argv[0]))
                    s = p.ghost.get("fmt:" + str(argv[1]))
                    lits = decode_template(s) if s is not None and not s.endswith("\n") or (s and "\xc0" in s) else [s]
                    if s is not None and not any(x for x in (lits or []) if x):
                        lits = [s]
                    p.trace.append(("write_fmt", "".join(x for x in (lits or []) if x) if lits else None, s))
                    r = fresh("wf")
                    return [(disc(r) == 0, r), (disc(r) == 1, r)]
                if re.search(r"io::Write>::(write|write_all|write_vectored)$", name):
                    p.trace.append(("raw_write", name.rsplit("::", 1)[-1]))
                    r = fresh("rw")
                    return [(disc(r) == 0, r), (disc(r) == 1, r)]
                return None
            ex = X.Exec(mir, h)
            me = fresh("out")

            def fin(p, how, value, ex=ex, mod=mod, where=where, text=text, entry=entry, me=me):
                stats["paths"] += 1
                if how != "return":
                    return
                for e in p.trace:
                    if e[0] == "writer_use" and not ex.valid(p, e[1] == proj(me, "f0"))[0]:
                        rep.bad("K12.framing", "the serializer and the framing writes go straight to the Output's own writer (no intermediate buffer whose Drop could swallow a write error)",
                                {"kind": "framing", "output": mod, "entry": entry})
                        break
                evs = [e for e in p.trace if e[0] in ("body", "write_fmt", "raw_write")]
                names = [e[0] for e in evs]
                wit = {"kind": "framing", "output": mod, "entry": entry, "events": [(e[0], e[1] if len(e) > 1 else None) for e in evs]}
                fails = [c for c in p.pc if re.match(r"^disc\((body|wf|rw)#\d+\) == 1$", str(c))]
                is_ok = ex.valid(p, disc(value) == 0)[0]
                if bool(fails) == is_ok:
                    rep.bad("K12.framing", "Ok exactly when the document body and every framing write succeeded", wit)
                if fails and names and not re.match(r"^disc\((body|wf|rw)#\d+\) == 1$", str(fails[-1])):
                    pass
                if "raw_write" in names:
                    rep.bad("K12.framing", "framing is written with a method that delivers the whole text (write_fmt / write_all through writeln!), never a bare write", wit)
                    return
                if is_ok:
                    stats["ok"] += 1
                    seq = [(e[0], e[1] if len(e) > 1 else None) for e in evs]
                    want = {"after": [("body", None), ("write_fmt", text)], "before": [("write_fmt", text), ("body", None)], None: [("body", None)]}[where]
                    got = [(a, b if a == "write_fmt" else None) for a, b in seq]
                    if got != want:
                        rep.bad("K12.framing", "%s output frames every document: %s" % (mod, {"after": "the document then a newline", "before": "a '---' line then the document", None: "the bare value"}[where]), wit)
                else:
                    # nothing after the first failure
                    first_fail = None
                    for i, e in enumerate(evs):
                        pass
            ex.run(fn, X.Path(), [me, fresh("doc")], fin)
            rep.absorb(ex)
            if not stats["ok"]:
                raise Inconclusive("vacuity: %s::Output::%s never succeeds" % (mod, entry))
            rep.witnesses.append("%s::Output::%s: %d paths" % (mod, entry, stats["paths"]))
    rep.samples.append({"query": "K12.framing", "claim": "JSON: body then newline; YAML: '---' line then body; MessagePack: body only; Ok iff every step succeeded; no bare write()"})


# -------------------------------------------------------------------------------------------------
# K13: the four <format>::input_matches trials - detection never fails for a reason other than an
#      I/O error of the source itself; running out of input or a syntax error means "no"
# -------------------------------------------------------------------------------------------------

RMP_DECODE = {"InvalidMarkerRead": 0, "InvalidDataRead": 1}
MARKER_COLLECTIONS = {22, 23, 24, 25, 26, 27}  # rmp::Marker::{FixArray, Array16, Array32, FixMap, Map16, Map32}


def _path_labels(p, prefixes):
    seen = {}
    for c in p.pc:
        for m in re.finditer(r"\b(%s)_(\w+?)#(\d+)" % "|".join(prefixes), str(c)):
            seen[int(m.group(3))] = (m.group(1), m.group(2))
    return [seen[k] for k in sorted(seen)]


def k13_input_matches(mir, rep):
    kind = pure_fn("io_error_kind", 1)
    stats = {}

    def mk_handler(ex_holder):
        def h(ex, p, name, argv, dst, dst_type, cur_fn):
            if name == "drop":
                return None
            if re.search(r"input::Ref::<.*>::prefix$", name):
                p.trace.append(("prefix", argv[1]))
                out = []
                for lab in ("err", "ok"):
                    r = fresh("prefix_" + lab)
                    out.append((disc(r) == (1 if lab == "err" else 0), r))
                return out
            if re.search(r"(^|::)from_utf8$", name):
                out = []
                for lab in ("bad", "ok"):
                    r = fresh("utf8_" + lab)
                    out.append((disc(r) == (1 if lab == "bad" else 0), r))
                return out
            if re.search(r"(^|::)(match_input_str|match_input_buffer|match_input_reader::<.*>)$", name):
                p.trace.append(("trial", name.split("::")[-1][:18]))
                out = []
                if "msgpack" in cur_fn.name:
                    labs = ["ok", "markereof", "markerio", "dataeof", "dataio", "other"]
                else:
                    labs = ["ok", "io", "syntax"]
                for lab in labs:
                    r = fresh("trial_" + lab)
                    e = proj(r, "Err.0")
                    if lab == "ok":
                        c = disc(r) == 0
                    elif lab in ("markereof", "markerio", "dataeof", "dataio"):
                        variant = "InvalidMarkerRead" if lab.startswith("marker") else "InvalidDataRead"
                        ioe = proj(e, variant + ".0")
                        eof = ex.aggregate(p, "UnexpectedEof")
                        c = z3.And(disc(r) == 1, disc(e) == RMP_DECODE[variant],
                                   (disc(kind(ioe)) == disc(eof)) if lab.endswith("eof") else (disc(kind(ioe)) != disc(eof)))
                    elif lab == "other":
                        c = z3.And(disc(r) == 1, disc(e) >= 2, disc(e) <= 8)
                    elif lab == "io":
                        c = z3.And(disc(r) == 1, asint(pure_fn("is_io", 1)(e)) == 1)
                    else:
                        c = z3.And(disc(r) == 1, asint(pure_fn("is_io", 1)(e)) == 0)
                    out.append((c, r))
                return out
            if re.search(r"serde_json::Error::is_io$", name):
                return pure_fn("is_io", 1)(argv[0])
            if re.search(r"io::Error::kind$", name):
                return kind(argv[0])
            if re.search(r"ErrorKind as PartialEq>::eq$", name):
                r = fresh("kindeq")
                p.pc.append(asint(r) == z3.If(disc(argv[0]) == disc(argv[1]), 1, 0))
                return r
            if re.search(r"serde_json::Error as Into<std::io::Error>>::into$", name):
                return pure_fn("json_into_io", 1)(argv[0])
            if re.search(r"<impl \[u8\]>::first$", name):
                r = fresh("first")
                p.pc.append(z3.Or(disc(r) == 0, disc(r) == 1))
                return r
            if re.search(r"Option::<&u8>::copied$", name):
                return argv[0]
            if re.search(r"Option::<u8>::map::<Marker", name):
                r = fresh("marker")
                p.pc.append(disc(r) == disc(argv[0]))
                p.pc.append(z3.And(disc(proj(r, "Some.0")) >= 0, disc(proj(r, "Some.0")) <= 36))
                return r
            if re.search(r"<impl \[u8\]>::len$", name):
                r = fresh("len")
                p.pc.append(asint(r) >= 0)
                return r
            if re.search(r"Encoding::detect$", name):
                p.trace.append(("detect", argv[0]))
                return fresh("encoding")
            if re.search(r"Encoder::<.*>::new$|BufReader::<.*>::new$|Chunker::<.*>::new$", name):
                return fresh("wrapped")
            if re.search(r"as Iterator>::next$", name):
                out = []
                for lab in ("none", "doc", "invalid", "othererr"):
                    r = fresh("chunk_" + lab)
                    e = proj(proj(r, "Some.0"), "Err.0")
                    inv = ex.aggregate(p, "InvalidData")
                    if lab == "none":
                        c = disc(r) == 0
                    elif lab == "doc":
                        c = z3.And(disc(r) == 1, disc(proj(r, "Some.0")) == 0)
                    elif lab == "invalid":
                        c = z3.And(disc(r) == 1, disc(proj(r, "Some.0")) == 1, disc(kind(e)) == disc(inv))
                    else:
                        c = z3.And(disc(r) == 1, disc(proj(r, "Some.0")) == 1, disc(kind(e)) != disc(inv))
                    out.append((c, r))
                return out
            if re.search(r"Document::is_collection$", name):
                r = pure_fn("is_collection", 1)(argv[0])
                p.pc.append(z3.Or(asint(r) == 0, asint(r) == 1))
                return r
            if re.search(r"toml::Deserializer::<.*>::new$", name):
                return fresh("tomlde")
            if re.search(r"IgnoredAny as Deserialize<'_>>::deserialize::<toml", name):
                p.trace.append(("trial", "toml"))
                out = []
                for lab in ("ok", "syntax"):
                    r = fresh("trial_" + lab)
                    out.append((disc(r) == (0 if lab == "ok" else 1), r))
                return out
            if re.search(r"Result::<.*>::is_ok$", name):
                r = fresh("is_ok")
                p.pc.append(asint(r) == z3.If(disc(argv[0]) == 0, 1, 0))
                return r
            return None
        return h

    for fmt in ("msgpack", "json", "yaml", "toml"):
        fn = mir.find(r"^%s::input_matches$" % fmt)
        st = {"paths": 0, "true": 0, "false": 0, "err": 0}
        for is_slice in (True, False):
            ex = X.Exec(mir, None)
            ex.handler = mk_handler(ex)
            ref = fresh("inputref")
            p0 = X.Path()
            p0.pc.append(disc(ref) == X.VARIANTS.get("Ref::Slice", 0) if is_slice else disc(ref) == X.VARIANTS.get("Ref::Reader", 1))

            def fin(p, how, value, ex=ex, fmt=fmt, is_slice=is_slice, st=st):
                st["paths"] += 1
                if how != "return":
                    return
                labs = _path_labels(p, ["prefix", "utf8", "trial", "chunk"])
                d = dict((a, b) for a, b in labs)
                wit = {"kind": "trial", "format": fmt, "input": "slice" if is_slice else "reader", "path": ["%s_%s" % l for l in labs]}
                is_err = ex.valid(p, disc(value) == 1)[0]
                is_true = ex.valid(p, z3.And(disc(value) == 0, asint(proj(value, "Ok.0")) == 1))[0]
                is_false = ex.valid(p, z3.And(disc(value) == 0, asint(proj(value, "Ok.0")) == 0))[0]
                st["err" if is_err else "true" if is_true else "false"] += 1
                # expected verdict
                if d.get("prefix") == "err":
                    want = "err"
                elif fmt == "msgpack":
                    t = d.get("trial")
                    want = {None: "false", "ok": "true", "markereof": "false", "dataeof": "false", "markerio": "err", "dataio": "err", "other": "false"}[t]
                elif fmt == "json":
                    want = "false" if d.get("utf8") == "bad" else {"ok": "true", "io": "err", "syntax": "false", None: "false"}[d.get("trial")]
                elif fmt == "yaml":
                    want = {"none": "false", "doc": "doc", "invalid": "false", "othererr": "err", None: "?"}[d.get("chunk")]
                else:
                    if d.get("utf8") == "bad":
                        want = "false"
                    elif "trial" in d:
                        want = "true" if d["trial"] == "ok" else "false"
                    else:
                        want = "false"  # reader prefix at or above the cut-off
                got = "err" if is_err else "true" if is_true else "false" if is_false else "other"
                if want == "doc":
                    ok = (not is_err) and any(e[0] == "trial" or True for e in p.trace)
                    ok = ok and ex.valid(p, disc(value) == 0)[0]
                    if not ok:
                        rep.bad("K13.trial", "a YAML first document decides by whether it is a collection", wit)
                elif want != got:
                    rep.bad("K13.trial", "%s trial: an I/O error of the source is the only reason to fail; running out of input, invalid UTF-8 or a syntax error mean 'not this format' (expected %s, got %s)" % (fmt, want, got), wit)
                if is_err and d.get("prefix") == "err":
                    pass
                # msgpack: the trial only runs for a collection first byte
                if fmt == "msgpack" and "trial" in d:
                    mk = [c for c in p.pc if "marker#" in str(c)]
                    names = _consts_named(p, "marker")
                    mv = z3.Const(names[0], X.V)
                    if not ex.valid(p, z3.And(disc(mv) == 1, z3.Or([disc(proj(mv, "Some.0")) == k for k in MARKER_COLLECTIONS])))[0]:
                        rep.bad("K13.trial", "the MessagePack trial only runs when the first byte is a collection marker", wit)
                if fmt == "json" and "trial" not in d and d.get("utf8") != "bad" and d.get("prefix") != "err":
                    rep.bad("K13.trial", "the JSON trial parses the input itself; nothing but invalid UTF-8 (or an I/O error) may rule JSON out beforehand - a look-ahead sees less of a reader than of a slice", wit)
                if fmt == "toml" and not is_slice:
                    pre = [e for e in p.trace if e[0] == "prefix"]
                    if pre and not ex.valid(p, asint(pre[0][1]) == 2 * 1024 * 1024)[0]:
                        rep.bad("K13.trial", "TOML detection from a reader buffers up to 2 MiB (2097152 bytes)", wit)
                if fmt == "yaml":
                    pre = [e for e in p.trace if e[0] == "prefix"]
                    if pre and not ex.valid(p, asint(pre[0][1]) == 4)[0]:
                        rep.bad("K13.trial", "YAML detection looks at a 4 byte prefix for the encoding", wit)
            ex.run(fn, p0, [ref], fin)
            rep.absorb(ex)
        if not (st["true"] + (1 if fmt == "yaml" else 0) and st["false"] and (st["err"] or fmt == "toml")):
            raise Inconclusive("vacuity: %s::input_matches exploration did not reach every verdict (%s)" % (fmt, st))
        stats[fmt] = st
        rep.witnesses.append("%s::input_matches: %d paths (%d yes, %d no, %d error)" % (fmt, st["paths"], st["true"], st["false"], st["err"]))
    rep.samples.append({"query": "K13.trial", "claim": "per format: Err only for an I/O error of the source (prefix / reader); end of input, invalid UTF-8, syntax errors, an InvalidData chunker error => Ok(false); msgpack trial only for a collection first byte; TOML reader cut-off 2 MiB; YAML prefix 4 bytes",
                        "bound": "all paths of the four functions, slice and reader reference"})
    return stats


# -------------------------------------------------------------------------------------------------
# K14: detect_format order (from MIR, incl. the reader handle)      K15: flush reaches the writer
# -------------------------------------------------------------------------------------------------

def k14_detect_order(mir, rep):
    fn = mir.find(r"(^|::)detect_format$")
    ORDER = ["msgpack", "json", "yaml", "toml"]
    FMT_OF = {"msgpack": "Msgpack", "json": "Json", "yaml": "Yaml", "toml": "Toml"}
    stats = {"paths": 0, "some": 0, "none": 0, "err": 0}

    def h(ex, p, name, argv, dst, dst_type, cur_fn):
        if name == "drop":
            return None
        if re.search(r"Handle::<.*>::borrow_mut$", name):
            r = fresh("borrow")
            p.trace.append(("borrow", argv[0], r))
            return r
        m = re.search(r"(^|::)(msgpack|json|yaml|toml)::input_matches$", name)
        if m:
            out = []
            for lab in ("no", "yes", "err"):
                r = fresh("trial_%s_%s" % (m.group(2), lab))
                if lab == "err":
                    out.append((disc(r) == 1, r))
                else:
                    out.append((z3.And(disc(r) == 0, asint(proj(r, "Ok.0")) == (1 if lab == "yes" else 0)), r))
            p.trace.append(("trial", m.group(2), argv[0]))
            return out
        return None
    ex = X.Exec(mir, h)
    handle = fresh("handle")

    def fin(p, how, value):
        stats["paths"] += 1
        if how != "return":
            return
        trials = [e for e in p.trace if e[0] == "trial"]
        labs = _path_labels(p, ["trial"])
        outcomes = [l[1].split("_", 1) for l in labs]  # [format, outcome]
        wit = {"kind": "detect_order", "trials": ["%s:%s" % tuple(o) for o in outcomes]}
        got_order = [t[1] for t in trials]
        if got_order != ORDER[:len(got_order)]:
            rep.bad("K14.detect", "the trials run in the order MessagePack, JSON, YAML, TOML", wit)
            return
        # every trial gets its own fresh borrow of the handle
        borrows = [e for e in p.trace if e[0] == "borrow"]
        for i, t in enumerate(trials):
            ok = i < len(borrows) and ex.valid(p, z3.And(borrows[i][1] == handle, t[2] == borrows[i][2]))[0]
            if not ok:
                rep.bad("K14.detect", "every trial gets a fresh borrow of the input handle (which rewinds a reader)", wit)
                return
        for o in outcomes[:-1]:
            if o[1] != "no":
                rep.bad("K14.detect", "detection stops at the first trial that does not say 'no'", wit)
                return
        last = outcomes[-1] if outcomes else None
        if last is None:
            rep.bad("K14.detect", "at least one trial runs", wit)
        elif last[1] == "yes":
            stats["some"] += 1
            want = X.VARIANTS["Format::" + FMT_OF[last[0]]]
            if not ex.valid(p, z3.And(disc(value) == 0, disc(proj(value, "Ok.0")) == 1, disc(proj(proj(value, "Ok.0"), "Some.0")) == want))[0]:
                rep.bad("K14.detect", "the format of the first matching trial is selected", wit)
        elif last[1] == "err":
            stats["err"] += 1
            if not ex.valid(p, disc(value) == 1)[0]:
                rep.bad("K14.detect", "a trial's I/O error is returned", wit)
        else:
            stats["none"] += 1
            if len(outcomes) != 4 or not ex.valid(p, z3.And(disc(value) == 0, disc(proj(value, "Ok.0")) == 0))[0]:
                rep.bad("K14.detect", "None exactly when all four trials said 'no'", wit)
    ex.run(fn, X.Path(), [handle], fin)
    rep.absorb(ex)
    if not (stats["some"] >= 4 and stats["none"] and stats["err"] >= 4):
        raise Inconclusive("vacuity: detect_format exploration did not reach every outcome (%s)" % stats)
    rep.witnesses.append("detect_format: %d paths (%d detected, %d none, %d errors)" % (stats["paths"], stats["some"], stats["none"], stats["err"]))
    rep.samples.append({"query": "K14.detect", "paths": stats["paths"], "claim": "fixed trial order, a fresh borrow per trial, stop at the first non-'no', its format / None / its error"})


def k15_flush(mir, rep):
    """Translator::flush -> Dispatcher -> each Output::flush -> the writer's flush, result passed through"""
    n = 0
    for mod in ("json", "msgpack", "yaml", "toml"):
        try:
            fn = mir.find(r"^%s::<impl.*>::flush$" % mod)
        except Inconclusive:
            rep.bad("K15.flush", "%s::Output::flush flushes its own writer and returns that result (the Output has no flush of its own)" % mod, {"kind": "flush_chain", "output": mod})
            continue
        seen = []

        def h(ex, p, name, argv, dst, dst_type, cur_fn):
            if re.search(r"io::Write>::flush$", name):
                r = fresh("flushed")
                p.trace.append(("writer_flush", argv[0], r))
                return r
            return None
        ex = X.Exec(mir, h)
        me = fresh("out")

        def fin(p, how, value, ex=ex, me=me, mod=mod):
            seen.append(1)
            fl = [e for e in p.trace if e[0] == "writer_flush"]
            ok = how == "return" and len(fl) == 1 and ex.valid(p, z3.And(value == fl[0][2], z3.Or(fl[0][1] == proj(me, "f0"), fl[0][1] == proj(me, "f1"))))[0]
            if not ok:
                rep.bad("K15.flush", "%s::Output::flush flushes its own writer and returns that result" % mod, {"kind": "flush_chain", "output": mod})
        ex.run(fn, X.Path(), [me], fin)
        rep.absorb(ex)
        n += len(seen)
    # Dispatcher::flush and Translator::flush
    disp = [f for nme, f in mir.functions.items() if nme.endswith("::flush") and "Dispatcher" in f.sig]
    tr = [f for nme, f in mir.functions.items() if nme.endswith("::flush") and "Translator" in f.sig]
    if len(disp) != 1 or len(tr) != 1:
        raise Inconclusive("Dispatcher/Translator flush not found")

    def hd(ex, p, name, argv, dst, dst_type, cur_fn):
        m = re.search(r"(json|msgpack|yaml|toml)::Output<W> as Output>::flush$|<(?:&mut )?(json|msgpack|yaml|toml)::Output<W> as Output>::flush$", name)
        if m or re.search(r"as Output>::flush$", name):
            r = fresh("oflush")
            p.trace.append(("output_flush", name, argv[0], r))
            return r
        return None
    ex = X.Exec(mir, hd)
    for f in (disp[0], tr[0]):
        me = fresh("self")

        def fin(p, how, value, ex=ex, f=f):
            fl = [e for e in p.trace if e[0] == "output_flush"]
            if how == "dead":
                return
            if how != "return" or len(fl) != 1 or not ex.valid(p, value == fl[0][3])[0]:
                rep.bad("K15.flush", "Translator::flush reaches the selected Output's flush and returns its result", {"kind": "flush_chain", "fn": f.name})
        p0 = X.Path()
        ex.run(f, p0, [me], fin)
    rep.absorb(ex)
    rep.witnesses.append("flush chain: 4 Output::flush + Dispatcher + Translator, %d paths" % n)
    rep.samples.append({"query": "K15.flush", "claim": "Translator::flush -> Dispatcher -> <format>::Output::flush -> Write::flush of the Output's own writer, results passed through"})
