#!/usr/bin/env python3
"""Regenerate /verif/MANIFEST.json from the harness registry and claims.py."""
import json, os, sys
sys.path.insert(0, os.path.dirname(os.path.abspath(__file__)))
import registry as R
import claims as C

ROOT = os.path.dirname(os.path.dirname(os.path.abspath(__file__)))
props = [json.loads(l)["id"] for l in open(os.path.join(ROOT, "properties.jsonl"))]
checks = []
for p in props:
    if p not in C.CLAIMS or not R.select(p, "quick"):
        continue
    c = C.CLAIMS[p]
    e = {"property_id": p,
         "quick_cmd": "bin/check %s --tier quick" % p,
         "evidence_file": "evidence/%s.json" % p,
         "replay_cmd_template": "bin/check --replay {path}",
         "engine": c.get("engine", "kani-cbmc"),
         "level_claimed": {"category": "model_checking", "text": c["text"], "design_ref": c["design_ref"]},
         "level_note": c["note"], "technique": c["technique"]}
    if len(R.select(p, "thorough")) > len(R.select(p, "quick")) or c.get("thorough"):
        e["thorough_cmd"] = "bin/check %s --tier thorough" % p
    checks.append(e)
claimed = {c["property_id"] for c in checks}
na = []
for p in props:
    if p in claimed:
        continue
    na.append({"property_id": p, "reason": C.NOT_APPLICABLE.get(p, "check not built yet (build in progress; DESIGN.md section 11)")})
m = {"version": 1,
     "setup_cmd": "bin/setup",
     "hooks": {"guard": "cfg(kani) - set only by cargo kani inside scratch overlays; /repo carries no hook code",
               "enable": "bin/check copies /repo's working tree to /var/tmp/xt-verif.*, appends `#[cfg(kani)] #[path=\"/verif/harness/<module>.rs\"] mod verif_kani;` to the module files of the copy and runs cargo kani there",
               "baseline_off_cmd": "cd /repo && cargo test --workspace --no-fail-fast --offline",
               "source_commits": [], "add_only": True},
     "engines": [{"name": "kani-cbmc", "path": "lib/xtverif.py", "serves_properties": sorted(p for p in claimed if C.CLAIMS[p].get("engine") != "xtmir-z3" or p in ("C15", "C16")),
                  "kind_free_text": "Kani 0.68 / CBMC 6.11 bounded model checker over the real Rust sources (injection and substitution overlays)"},
                 {"name": "xtmir-z3", "path": "lib/xtmir.py", "serves_properties": sorted(p for p in claimed if p in ("C13", "C14", "C15", "C16")),
                  "kind_free_text": "own MIR -> SMT symbolic executor (z3 4.8 via z3-solver in the tooling venv) over rustc's -Zunpretty=mir dump of the binary crate"}],
     "checks": checks, "not_applicable": na,
     "notes": "All checks are bounded and solver-decided; see DESIGN.md. Exit 2 = inconclusive (never reported as a pass or as a violation)."}
json.dump(m, open(os.path.join(ROOT, "MANIFEST.json"), "w"), indent=1)
print("claimed:", sorted(claimed))
