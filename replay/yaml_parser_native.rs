// Native confirmation for the E3 queries over the libyaml binding (K16-K19, src/yaml/chunker/parser.rs),
// through the REAL unsafe-libyaml / serde_yaml crates and the public API:
//  * K16: a UTF-8 byte order mark must not shift the chunk boundaries (the parser's encoding is pinned);
//  * K17: the text of a YAML syntax error is libyaml's problem [+ context], each with its own location -
//    line/column (1-based) or, for reader-level errors that carry no mark, the byte offset;
//  * K18: the input reader's own error text survives; a syntax error is not reported as an I/O problem.
// Run: copy to <xt checkout>/tests/yaml_parser_native.rs && cargo test --offline --test yaml_parser_native
use std::io::{self, Read};
use std::panic::{catch_unwind, AssertUnwindSafe};
use xt::Format;

struct Tiny<'a> {
	data: &'a [u8],
	chunk: usize,
	fail_at: Option<usize>,
	pos: usize,
}
impl Read for Tiny<'_> {
	fn read(&mut self, b: &mut [u8]) -> io::Result<usize> {
		if let Some(k) = self.fail_at {
			if self.pos >= k {
				return Err(io::Error::new(io::ErrorKind::Other, "cable unplugged"));
			}
		}
		let mut n = (self.data.len() - self.pos).min(b.len()).min(self.chunk);
		if let Some(k) = self.fail_at {
			n = n.min(k - self.pos);
		}
		b[..n].copy_from_slice(&self.data[self.pos..self.pos + n]);
		self.pos += n;
		Ok(n)
	}
}
fn rd(data: &[u8], chunk: usize) -> Tiny<'_> {
	Tiny { data, chunk, fail_at: None, pos: 0 }
}

const TARGETS: [Format; 3] = [Format::Json, Format::Msgpack, Format::Yaml];

// (malformed stream, the message libyaml's problem/context strings and marks amount to)
const GOLDEN: [(&[u8], &str); 14] = [
	(b"[1, 2\n", "did not find expected ',' or ']' at line 2 column 1, while parsing a flow sequence at position 0"),
	(b"a: [1, 2\nb: 3\n", "did not find expected ',' or ']' at line 2 column 2, while parsing a flow sequence at line 1 column 4"),
	(b"{a: 1, b\n", "did not find expected ',' or '}' at line 2 column 1, while parsing a flow mapping at position 0"),
	(b"a: 'x\n", "found unexpected end of stream at line 2 column 1, while scanning a quoted scalar at line 1 column 4"),
	(b"a:\n\t- 1\n", "found character that cannot start any token at line 2 column 1, while scanning for the next token at line 2 column 1"),
	(b"a: *x\n", "unknown anchor at line 1 column 4"),
	(b"- a\n b: c\n", "mapping values are not allowed in this context at line 2 column 3"),
	(b"a: b: c\n", "mapping values are not allowed in this context at line 1 column 5"),
	(b"ok: 1\n---\n[1, 2\n", "did not find expected ',' or ']' at line 4 column 1, while parsing a flow sequence at line 3 column 1"),
	(b"%YAML 3.0\n---\na\n", "found incompatible YAML document at position 0"),
	(b"a: &x 1\nb: [*x, }\n", "did not find expected node content at line 2 column 9, while parsing a flow node at line 2 column 9"),
	(b"\"abc\\q\"\n", "found unknown escape character at line 1 column 5, while parsing a quoted scalar at position 0"),
	(b"? a\n: b\n- c\n", "did not find expected key at line 3 column 1, while parsing a block mapping at position 0"),
	(b"x: [a, b\ny: {c: d\n", "did not find expected ',' or ']' at line 2 column 2, while parsing a flow sequence at line 1 column 4"),
];

#[test]
fn syntax_errors_carry_libyamls_text_and_positions() {
	let mut bad = vec![];
	for (doc, want) in GOLDEN {
		for to in TARGETS {
			for chunk in [1usize, 3, 4096] {
				let mut out = Vec::new();
				let got = match xt::translate_reader(rd(doc, chunk), Some(Format::Yaml), to, &mut out) {
					Ok(()) => "<success>".to_string(),
					Err(e) => e.to_string(),
				};
				if got != want {
					bad.push(format!("{:?} -> {to} (reads of {chunk}): message {got:?}, libyaml's report amounts to {want:?}", String::from_utf8_lossy(doc)));
				}
			}
		}
	}
	assert!(bad.is_empty(), "{} violations, first: {}", bad.len(), bad[0]);
}

#[test]
fn reader_level_errors_report_the_byte_offset() {
	let base = b"k: v\nlist:\n  - one\n  - two\n";
	let mut bad = vec![];
	for (byte, text) in [(0x01u8, "control characters are not allowed"), (0xFFu8, "invalid leading UTF-8 octet")] {
		for k in 0..base.len() {
			let mut doc = base.to_vec();
			doc[k] = byte;
			let want = format!("{text} at position {k}");
			for to in TARGETS {
				let mut out = Vec::new();
				let got = match xt::translate_reader(rd(&doc, 5), Some(Format::Yaml), to, &mut out) {
					Ok(()) => "<success>".to_string(),
					Err(e) => e.to_string(),
				};
				if got != want {
					bad.push(format!("byte {byte:#04x} planted at {k} -> {to}: reader input says {got:?}, expected {want:?}"));
				}
				if k > 0 {
					let mut out = Vec::new();
					let got = match xt::translate_slice(&doc, Some(Format::Yaml), to, &mut out) {
						Ok(()) => "<success>".to_string(),
						Err(e) => e.to_string(),
					};
					if got != want {
						bad.push(format!("byte {byte:#04x} planted at {k} -> {to}: slice input says {got:?}, expected {want:?}"));
					}
				}
			}
		}
	}
	assert!(bad.is_empty(), "{} violations, first: {}", bad.len(), bad[0]);
}

#[test]
fn utf8_bom_does_not_shift_chunk_boundaries() {
	std::panic::set_hook(Box::new(|_| {}));
	let cases: [(&str, &str); 5] = [
		("\u{FEFF}k: \"\u{65E5}\u{672C}\"", "{\"k\":\"\u{65E5}\u{672C}\"}\n"),
		("\u{FEFF}k: \"\u{65E5}\u{672C}\"\n", "{\"k\":\"\u{65E5}\u{672C}\"}\n"),
		("\u{FEFF}- \u{00E9}\u{00E9}\u{00E9}\n---\n- \u{1F600}\u{1F600}\n", "[\"\u{00E9}\u{00E9}\u{00E9}\"]\n[\"\u{1F600}\u{1F600}\"]\n"),
		// (libyaml counts a skipped BOM as one column, so only documents that do not depend on the
		// indentation of their first line are used here)
		("\u{FEFF}[\"\u{00E9}\", 1]\n---\n{a: \"\u{00FC}\u{00FC}\"}\n", "[\"\u{00E9}\",1]\n{\"a\":\"\u{00FC}\u{00FC}\"}\n"),
		("\u{FEFF}{k: \"\u{20AC}\u{20AC}\u{20AC}\"}\n", "{\"k\":\"\u{20AC}\u{20AC}\u{20AC}\"}\n"),
	];
	let mut bad = vec![];
	for (doc, want) in cases {
		for from in [Some(Format::Yaml), None] {
			for chunk in [1usize, 2, 3, 7, 4096] {
				let mut out = Vec::new();
				let r = catch_unwind(AssertUnwindSafe(|| xt::translate_reader(rd(doc.as_bytes(), chunk), from, Format::Json, &mut out)));
				let got = match r {
					Err(_) => "<panic>".to_string(),
					Ok(Err(e)) => format!("<error: {e}>"),
					Ok(Ok(())) => String::from_utf8_lossy(&out).into_owned(),
				};
				if got != want {
					bad.push(format!("{doc:?} (format {}, reads of {chunk}): {got:?}, expected {want:?}", if from.is_some() { "named" } else { "detected" }));
				}
			}
		}
		// detection from a slice also goes through the chunker
		let mut out = Vec::new();
		let r = catch_unwind(AssertUnwindSafe(|| xt::translate_slice(doc.as_bytes(), None, Format::Json, &mut out)));
		let got = match r {
			Err(_) => "<panic>".to_string(),
			Ok(Err(e)) => format!("<error: {e}>"),
			Ok(Ok(())) => String::from_utf8_lossy(&out).into_owned(),
		};
		if got != want {
			bad.push(format!("{doc:?} (slice, detected): {got:?}, expected {want:?}"));
		}
	}
	let _ = std::panic::take_hook();
	assert!(bad.is_empty(), "{} violations, first: {}", bad.len(), bad[0]);
}

#[test]
fn reader_faults_keep_their_text_and_syntax_errors_are_not_io_errors() {
	let docs: [&[u8]; 3] = [b"k: v\nlist:\n  - one\n  - two\n", b"- 1\n---\n- 2\n---\n- 3\n", b"{a: [1, 2, {b: c}]}\n"];
	let mut bad = vec![];
	for doc in docs {
		for k in 0..doc.len() {
			for to in TARGETS {
				let mut out = Vec::new();
				let r = Tiny { data: doc, chunk: 3, fail_at: Some(k), pos: 0 };
				match xt::translate_reader(r, Some(Format::Yaml), to, &mut out) {
					Ok(()) => bad.push(format!("{:?} -> {to}: reader failing at byte {k} reported success", String::from_utf8_lossy(doc))),
					Err(e) => {
						let m = e.to_string();
						if !m.contains("cable unplugged") {
							bad.push(format!("{:?} -> {to}: reader failing at byte {k}: its text is lost: {m:?}", String::from_utf8_lossy(doc)));
						}
					}
				}
			}
		}
	}
	for (doc, _) in GOLDEN {
		let mut out = Vec::new();
		if let Err(e) = xt::translate_reader(rd(doc, 3), Some(Format::Yaml), Format::Json, &mut out) {
			let m = e.to_string();
			if m.contains("input error") || m.contains("translation failed") {
				bad.push(format!("{:?}: a syntax error is reported as {m:?}", String::from_utf8_lossy(doc)));
			}
		}
	}
	assert!(bad.is_empty(), "{} violations, first: {}", bad.len(), bad[0]);
}
