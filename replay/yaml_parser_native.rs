// Native confirmation for the E3 queries over the libyaml binding (K16-K19, src/yaml/chunker/parser.rs),
// through the REAL unsafe-libyaml / serde_yaml crates and the public API:
//  * K16: a UTF-8 byte order mark must not shift the chunk boundaries (the parser's encoding is pinned);
//  * K17: the text of a YAML syntax error is libyaml's problem [+ context], each with its own location -
//    line/column (1-based) or, for reader-level errors that carry no mark, the byte offset;
//  * K18: the input reader's own error text survives; a syntax error is not reported as an I/O problem.
// Run: copy to <xt checkout>/tests/yaml_parser_native.rs && cargo test --offline --test yaml_parser_native
use std::alloc::{GlobalAlloc, Layout, System};
use std::io::{self, Read};
use std::panic::{catch_unwind, AssertUnwindSafe};
use std::sync::atomic::{AtomicBool, AtomicIsize, Ordering};
use xt::Format;

// live heap bytes, for the K19 (init/delete pairing) replays
struct Counting;
static LIVE: AtomicIsize = AtomicIsize::new(0);
unsafe impl GlobalAlloc for Counting {
	unsafe fn alloc(&self, l: Layout) -> *mut u8 {
		let p = unsafe { System.alloc(l) };
		if !p.is_null() {
			LIVE.fetch_add(l.size() as isize, Ordering::Relaxed);
		}
		p
	}
	unsafe fn dealloc(&self, p: *mut u8, l: Layout) {
		LIVE.fetch_sub(l.size() as isize, Ordering::Relaxed);
		unsafe { System.dealloc(p, l) }
	}
	unsafe fn realloc(&self, p: *mut u8, l: Layout, new: usize) -> *mut u8 {
		let q = unsafe { System.realloc(p, l, new) };
		if !q.is_null() {
			LIVE.fetch_add(new as isize - l.size() as isize, Ordering::Relaxed);
		}
		q
	}
}
#[global_allocator]
static ALLOC: Counting = Counting;

struct Tiny<'a> {
	data: &'a [u8],
	chunk: usize,
	fail_at: Option<usize>,
	pos: usize,
}
impl Read for Tiny<'_> {
	fn read(&mut self, b: &mut [u8]) -> io::Result<usize> {
		if let Some(k) = self.fail_at {
			if self.pos >= k {
				return Err(io::Error::new(io::ErrorKind::Other, "cable unplugged"));
			}
		}
		let mut n = (self.data.len() - self.pos).min(b.len()).min(self.chunk);
		if let Some(k) = self.fail_at {
			n = n.min(k - self.pos);
		}
		b[..n].copy_from_slice(&self.data[self.pos..self.pos + n]);
		self.pos += n;
		Ok(n)
	}
}
fn rd(data: &[u8], chunk: usize) -> Tiny<'_> {
	Tiny { data, chunk, fail_at: None, pos: 0 }
}

const TARGETS: [Format; 3] = [Format::Json, Format::Msgpack, Format::Yaml];

// (malformed stream, the message libyaml's problem/context strings and marks amount to)
const GOLDEN: [(&[u8], &str); 14] = [
	(b"[1, 2\n", "did not find expected ',' or ']' at line 2 column 1, while parsing a flow sequence at position 0"),
	(b"a: [1, 2\nb: 3\n", "did not find expected ',' or ']' at line 2 column 2, while parsing a flow sequence at line 1 column 4"),
	(b"{a: 1, b\n", "did not find expected ',' or '}' at line 2 column 1, while parsing a flow mapping at position 0"),
	(b"a: 'x\n", "found unexpected end of stream at line 2 column 1, while scanning a quoted scalar at line 1 column 4"),
	(b"a:\n\t- 1\n", "found character that cannot start any token at line 2 column 1, while scanning for the next token at line 2 column 1"),
	(b"a: *x\n", "unknown anchor at line 1 column 4"),
	(b"- a\n b: c\n", "mapping values are not allowed in this context at line 2 column 3"),
	(b"a: b: c\n", "mapping values are not allowed in this context at line 1 column 5"),
	(b"ok: 1\n---\n[1, 2\n", "did not find expected ',' or ']' at line 4 column 1, while parsing a flow sequence at line 3 column 1"),
	(b"%YAML 3.0\n---\na\n", "found incompatible YAML document at position 0"),
	(b"a: &x 1\nb: [*x, }\n", "did not find expected node content at line 2 column 9, while parsing a flow node at line 2 column 9"),
	(b"\"abc\\q\"\n", "found unknown escape character at line 1 column 5, while parsing a quoted scalar at position 0"),
	(b"? a\n: b\n- c\n", "did not find expected key at line 3 column 1, while parsing a block mapping at position 0"),
	(b"x: [a, b\ny: {c: d\n", "did not find expected ',' or ']' at line 2 column 2, while parsing a flow sequence at line 1 column 4"),
];

#[test]
fn syntax_errors_carry_libyamls_text_and_positions() {
	let mut bad = vec![];
	for (doc, want) in GOLDEN {
		for to in TARGETS {
			for chunk in [1usize, 3, 4096] {
				let mut out = Vec::new();
				let got = match xt::translate_reader(rd(doc, chunk), Some(Format::Yaml), to, &mut out) {
					Ok(()) => "<success>".to_string(),
					Err(e) => e.to_string(),
				};
				if got != want {
					bad.push(format!("{:?} -> {to} (reads of {chunk}): message {got:?}, libyaml's report amounts to {want:?}", String::from_utf8_lossy(doc)));
				}
			}
		}
	}
	assert!(bad.is_empty(), "{} violations, first: {}", bad.len(), bad[0]);
}

#[test]
fn reader_level_errors_report_the_byte_offset() {
	let base = b"k: v\nlist:\n  - one\n  - two\n";
	let mut bad = vec![];
	for (byte, text) in [(0x01u8, "control characters are not allowed"), (0xFFu8, "invalid leading UTF-8 octet")] {
		for k in 0..base.len() {
			let mut doc = base.to_vec();
			doc[k] = byte;
			let want = format!("{text} at position {k}");
			for to in TARGETS {
				let mut out = Vec::new();
				let got = match xt::translate_reader(rd(&doc, 5), Some(Format::Yaml), to, &mut out) {
					Ok(()) => "<success>".to_string(),
					Err(e) => e.to_string(),
				};
				if got != want {
					bad.push(format!("byte {byte:#04x} planted at {k} -> {to}: reader input says {got:?}, expected {want:?}"));
				}
				if k > 0 {
					let mut out = Vec::new();
					let got = match xt::translate_slice(&doc, Some(Format::Yaml), to, &mut out) {
						Ok(()) => "<success>".to_string(),
						Err(e) => e.to_string(),
					};
					if got != want {
						bad.push(format!("byte {byte:#04x} planted at {k} -> {to}: slice input says {got:?}, expected {want:?}"));
					}
				}
			}
		}
	}
	assert!(bad.is_empty(), "{} violations, first: {}", bad.len(), bad[0]);
}

#[test]
fn utf8_bom_does_not_shift_chunk_boundaries() {
	std::panic::set_hook(Box::new(|_| {}));
	let cases: [(&str, &str); 5] = [
		("\u{FEFF}k: \"\u{65E5}\u{672C}\"", "{\"k\":\"\u{65E5}\u{672C}\"}\n"),
		("\u{FEFF}k: \"\u{65E5}\u{672C}\"\n", "{\"k\":\"\u{65E5}\u{672C}\"}\n"),
		("\u{FEFF}- \u{00E9}\u{00E9}\u{00E9}\n---\n- \u{1F600}\u{1F600}\n", "[\"\u{00E9}\u{00E9}\u{00E9}\"]\n[\"\u{1F600}\u{1F600}\"]\n"),
		// (libyaml counts a skipped BOM as one column, so only documents that do not depend on the
		// indentation of their first line are used here)
		("\u{FEFF}[\"\u{00E9}\", 1]\n---\n{a: \"\u{00FC}\u{00FC}\"}\n", "[\"\u{00E9}\",1]\n{\"a\":\"\u{00FC}\u{00FC}\"}\n"),
		("\u{FEFF}{k: \"\u{20AC}\u{20AC}\u{20AC}\"}\n", "{\"k\":\"\u{20AC}\u{20AC}\u{20AC}\"}\n"),
	];
	let mut bad = vec![];
	for (doc, want) in cases {
		for from in [Some(Format::Yaml), None] {
			for chunk in [1usize, 2, 3, 7, 4096] {
				let mut out = Vec::new();
				let r = catch_unwind(AssertUnwindSafe(|| xt::translate_reader(rd(doc.as_bytes(), chunk), from, Format::Json, &mut out)));
				let got = match r {
					Err(_) => "<panic>".to_string(),
					Ok(Err(e)) => format!("<error: {e}>"),
					Ok(Ok(())) => String::from_utf8_lossy(&out).into_owned(),
				};
				if got != want {
					bad.push(format!("{doc:?} (format {}, reads of {chunk}): {got:?}, expected {want:?}", if from.is_some() { "named" } else { "detected" }));
				}
			}
		}
		// detection from a slice also goes through the chunker
		let mut out = Vec::new();
		let r = catch_unwind(AssertUnwindSafe(|| xt::translate_slice(doc.as_bytes(), None, Format::Json, &mut out)));
		let got = match r {
			Err(_) => "<panic>".to_string(),
			Ok(Err(e)) => format!("<error: {e}>"),
			Ok(Ok(())) => String::from_utf8_lossy(&out).into_owned(),
		};
		if got != want {
			bad.push(format!("{doc:?} (slice, detected): {got:?}, expected {want:?}"));
		}
	}
	let _ = std::panic::take_hook();
	assert!(bad.is_empty(), "{} violations, first: {}", bad.len(), bad[0]);
}

#[test]
fn reader_faults_keep_their_text_and_syntax_errors_are_not_io_errors() {
	let docs: [&[u8]; 3] = [b"k: v\nlist:\n  - one\n  - two\n", b"- 1\n---\n- 2\n---\n- 3\n", b"{a: [1, 2, {b: c}]}\n"];
	let mut bad = vec![];
	for doc in docs {
		for k in 0..doc.len() {
			for to in TARGETS {
				let mut out = Vec::new();
				let r = Tiny { data: doc, chunk: 3, fail_at: Some(k), pos: 0 };
				match xt::translate_reader(r, Some(Format::Yaml), to, &mut out) {
					Ok(()) => bad.push(format!("{:?} -> {to}: reader failing at byte {k} reported success", String::from_utf8_lossy(doc))),
					Err(e) => {
						let m = e.to_string();
						if !m.contains("cable unplugged") {
							bad.push(format!("{:?} -> {to}: reader failing at byte {k}: its text is lost: {m:?}", String::from_utf8_lossy(doc)));
						}
					}
				}
			}
		}
	}
	for (doc, _) in GOLDEN {
		let mut out = Vec::new();
		if let Err(e) = xt::translate_reader(rd(doc, 3), Some(Format::Yaml), Format::Json, &mut out) {
			let m = e.to_string();
			if m.contains("input error") || m.contains("translation failed") {
				bad.push(format!("{:?}: a syntax error is reported as {m:?}", String::from_utf8_lossy(doc)));
			}
		}
	}
	assert!(bad.is_empty(), "{} violations, first: {}", bad.len(), bad[0]);
}

#[test]
fn nothing_is_leaked_whatever_the_stream_holds() {
	// every libyaml event that owns memory (directives, anchors, tags, scalars) is deleted exactly once and the parser
	// with its read state is released, on success, on syntax errors, on reader faults and when detection abandons the
	// chunker after one document. (run with --test-threads 1: the counter is global)
	let streams: [&[u8]; 8] = [
		b"%YAML 1.2\n%TAG !e! tag:example.com,2000:\n---\n!e!foo bar\n...\n%YAML 1.2\n---\n- &a x\n- *a\n",
		b"a: &anchor [1, 2]\nb: *anchor\nc: !!str tagged\n---\n? complex key\n: value\n",
		b"- |\n  literal text\n- >\n  folded text\n- 'single' \n- \"double\"\n",
		b"k: [1, 2\n",
		b"%TAG !e! tag:example.com,2000:\n---\n!e!x [1, {a: b}, \"unterminated\n",
		b"a: 1\n---\nb: 2\n---\nc: [\n",
		b"{\"json\": [1, 2, {\"k\": null}]}\n",
		b"# nothing here\n",
	];
	let run = |n: usize| {
		for _ in 0..n {
			for s in streams {
				for from in [Some(Format::Yaml), None] {
					for fail_at in [None, Some(s.len() / 2), Some(3)] {
						let r = Tiny { data: s, chunk: 5, fail_at, pos: 0 };
						let _ = xt::translate_reader(r, from, Format::Json, io::sink());
					}
					let _ = xt::translate_slice(s, from, Format::Json, io::sink());
				}
			}
		}
	};
	run(20);
	let before = LIVE.load(Ordering::Relaxed);
	run(200);
	let after = LIVE.load(Ordering::Relaxed);
	assert!(after - before < 4096, "1 violations, first: {} bytes of heap stay allocated after 200 rounds of translations (libyaml events, parser or read state not released)", after - before);
}

#[test]
fn the_reader_is_released_when_a_translation_panics() {
	// a reader that breaks the Read contract makes the translation panic; unwinding must still release the parser and
	// the read state, including the caller's reader
	static DROPPED: AtomicBool = AtomicBool::new(false);
	struct Liar {
		calls: usize,
		lie_on: usize,
	}
	impl Read for Liar {
		fn read(&mut self, b: &mut [u8]) -> io::Result<usize> {
			self.calls += 1;
			let text = b"key: value\n";
			let n = text.len().min(b.len());
			b[..n].copy_from_slice(&text[..n]);
			if self.calls == self.lie_on {
				Ok(b.len() + 7)
			} else {
				Ok(n)
			}
		}
	}
	impl Drop for Liar {
		fn drop(&mut self) {
			DROPPED.store(true, Ordering::SeqCst);
		}
	}
	std::panic::set_hook(Box::new(|_| {}));
	let mut bad = vec![];
	for lie_on in 1..=4 {
		DROPPED.store(false, Ordering::SeqCst);
		let r = catch_unwind(AssertUnwindSafe(|| xt::translate_reader(Liar { calls: 0, lie_on }, Some(Format::Yaml), Format::Json, io::sink())));
		if !DROPPED.load(Ordering::SeqCst) {
			bad.push(format!("over-report on read {lie_on}: outcome {}, the reader was never dropped (parser and read state leaked)", if r.is_err() { "panic" } else { "returned" }));
		}
	}
	let _ = std::panic::take_hook();
	assert!(bad.is_empty(), "{} violations, first: {}", bad.len(), bad[0]);
}
