// Native confirmation for family D (streaming transcoder) counterexamples, used when Kani cannot
// emit a concrete playback test for them: a single-fault sweep over a small corpus through the
// REAL serde_json / serde_yaml / rmp-serde crates and the public API. It states C11/C12 natively:
//  * a writer that starts failing at any byte is named as the cause (its message is in the error
//    text) and what it accepted is a prefix of the fault-free output;
//  * a reader that starts failing at any byte is named as the cause;
//  * a syntax error at any position is reported with the parser's message, never "translation failed".
// Run: copy to <xt checkout>/tests/stream_native.rs && cargo test --offline --test stream_native
use std::io::{self, Read, Write};
use xt::Format;

struct FailAt {
	seen: Vec<u8>,
	fail_at: usize,
}
impl Write for FailAt {
	fn write(&mut self, b: &[u8]) -> io::Result<usize> {
		if self.seen.len() >= self.fail_at {
			return Err(io::Error::new(io::ErrorKind::Other, "disk on fire"));
		}
		let n = (self.fail_at - self.seen.len()).min(b.len());
		self.seen.extend_from_slice(&b[..n]);
		Ok(n)
	}
	fn flush(&mut self) -> io::Result<()> {
		Ok(())
	}
}
struct FailRead<'a> {
	data: &'a [u8],
	pos: usize,
	fail_at: usize,
}
impl<'a> Read for FailRead<'a> {
	fn read(&mut self, b: &mut [u8]) -> io::Result<usize> {
		if self.pos >= self.fail_at {
			return Err(io::Error::new(io::ErrorKind::Other, "cable unplugged"));
		}
		let n = (self.fail_at - self.pos).min(self.data.len() - self.pos).min(b.len()).min(3);
		b[..n].copy_from_slice(&self.data[self.pos..self.pos + n]);
		self.pos += n;
		Ok(n)
	}
}

const DOCS: [&str; 3] = [r#"[1,2,{"a":3}]"#, r#"{"a":[1,{"b":null}],"c":"x"}"#, r#"[[],{},[{"k":[true]}]]"#];
const TARGETS: [Format; 3] = [Format::Json, Format::Yaml, Format::Msgpack];

#[test]
fn writer_fault_at_every_byte_is_attributed_to_the_writer() {
	let mut bad = vec![];
	for doc in DOCS {
		for to in TARGETS {
			let mut full = Vec::new();
			xt::translate_reader(doc.as_bytes(), Some(Format::Json), to, &mut full).unwrap();
			for k in 0..full.len() {
				let mut w = FailAt { seen: vec![], fail_at: k };
				match xt::translate_reader(doc.as_bytes(), Some(Format::Json), to, &mut w) {
					Ok(()) => bad.push(format!("{doc} -> {to}: writer failing at byte {k} reported success")),
					Err(e) => {
						let msg = e.to_string();
						// rmp-serde's own reason for a failed write does not quote the underlying I/O error
						let named = msg.contains("disk on fire") || (matches!(to, Format::Msgpack) && msg.contains("invalid value write"));
						if !named {
							bad.push(format!("{doc} -> {to}: writer failing at byte {k}: cause lost: {msg:?}"));
						}
					}
				}
				if !full.starts_with(&w.seen) {
					bad.push(format!("{doc} -> {to}: bytes accepted before the fault at {k} are not a prefix of the fault-free output"));
				}
			}
		}
	}
	assert!(bad.is_empty(), "{} violations, first: {:?}", bad.len(), &bad[..bad.len().min(3)]);
}

#[test]
fn reader_fault_at_every_byte_is_attributed_to_the_reader() {
	let mut bad = vec![];
	for doc in DOCS {
		for to in TARGETS {
			for k in 0..doc.len() {
				let mut out = Vec::new();
				let r = xt::translate_reader(FailRead { data: doc.as_bytes(), pos: 0, fail_at: k }, Some(Format::Json), to, &mut out);
				match r {
					Ok(()) => bad.push(format!("{doc} -> {to}: reader failing at byte {k} reported success")),
					Err(e) => {
						let msg = e.to_string();
						if !msg.contains("cable unplugged") {
							bad.push(format!("{doc} -> {to}: reader failing at byte {k}: cause lost: {msg:?}"));
						}
					}
				}
			}
		}
	}
	assert!(bad.is_empty(), "{} violations, first: {:?}", bad.len(), &bad[..bad.len().min(3)]);
}

/// A reader fault at ANY offset of a multi-document stream - in particular exactly between two
/// documents and at the very end - is an error, and the documents delivered before it are, in order,
/// documents of the fault-free output.
#[test]
fn reader_fault_in_a_multi_document_stream_is_an_error() {
	let mut bad = vec![];
	let json = br#"{"a":1} [2,3] "x" {"b":null}"#.to_vec();
	let yaml = b"a: 1\n---\n- 2\n- 3\n---\nx\n".to_vec();
	let msgpack = vec![0x81, 0xa1, 0x61, 0x01, 0x92, 0x02, 0x03, 0xa1, 0x78, 0x81, 0xa1, 0x62, 0xc0];
	// explicit document end markers: a fault between `...` and the next document must not be mistaken for the end
	let yaml_ends = b"a: 1\n...\n---\nb: 2\n...\n".to_vec();
	let yaml_end = b"k: v\n...\n\n".to_vec();
	for (from, data) in [(Format::Json, json), (Format::Yaml, yaml), (Format::Yaml, yaml_ends), (Format::Yaml, yaml_end), (Format::Msgpack, msgpack)] {
		let mut full = Vec::new();
		xt::translate_reader(&data[..], Some(from), Format::Json, &mut full).unwrap();
		let full = String::from_utf8(full).unwrap();
		for k in 0..=data.len() {
			let mut out = Vec::new();
			let r = xt::translate_reader(FailRead { data: &data, pos: 0, fail_at: k }, Some(from), Format::Json, &mut out);
			let out = String::from_utf8_lossy(&out).to_string();
			match r {
				Ok(()) => bad.push(format!("{from}: reader failing after {k} of {} bytes reported success (output {out:?})", data.len())),
				Err(e) => {
					if !e.to_string().contains("cable unplugged") {
						bad.push(format!("{from}: reader failing after {k} bytes: cause lost: {:?}", e.to_string()));
					}
				}
			}
			let complete: String = out.split_inclusive('\n').filter(|l| l.ends_with('\n')).collect();
			if !full.starts_with(&complete) {
				bad.push(format!("{from}: documents delivered before the fault at {k} are not a prefix of the fault-free output: {out:?}"));
			}
		}
	}
	assert!(bad.is_empty(), "{} violations, first: {:?}", bad.len(), &bad[..bad.len().min(3)]);
}

/// UTF-16/32 YAML (with and without BOM) delivered in reads of 1, 2, 3 and 5 bytes translates like the
/// same bytes from a slice: encoding detection must see four bytes however the source chunks them.
#[test]
fn utf16_32_yaml_in_tiny_reads_equals_slice() {
	struct Tiny<'a>(&'a [u8], usize);
	impl<'a> Read for Tiny<'a> {
		fn read(&mut self, b: &mut [u8]) -> io::Result<usize> {
			let n = self.1.min(self.0.len()).min(b.len());
			b[..n].copy_from_slice(&self.0[..n]);
			self.0 = &self.0[n..];
			Ok(n)
		}
	}
	let text = "k: \u{e9}\u{1F600}v\n";
	let mut encodings: Vec<(String, Vec<u8>)> = vec![];
	for bom in [false, true] {
		let t: String = if bom { format!("\u{FEFF}{text}") } else { text.to_string() };
		encodings.push((format!("utf16le bom={bom}"), t.encode_utf16().flat_map(|u| u.to_le_bytes()).collect()));
		encodings.push((format!("utf16be bom={bom}"), t.encode_utf16().flat_map(|u| u.to_be_bytes()).collect()));
		encodings.push((format!("utf32le bom={bom}"), t.chars().flat_map(|c| (c as u32).to_le_bytes()).collect()));
		encodings.push((format!("utf32be bom={bom}"), t.chars().flat_map(|c| (c as u32).to_be_bytes()).collect()));
	}
	let mut want = Vec::new();
	xt::translate_slice(text.as_bytes(), Some(Format::Yaml), Format::Json, &mut want).unwrap();
	let mut bad = vec![];
	for (name, bytes) in &encodings {
		for chunk in [1usize, 2, 3, 5, 4096] {
			for (how, from) in [("-f yaml", Some(Format::Yaml)), ("detected", None)] {
				let mut out = Vec::new();
				match xt::translate_reader(Tiny(bytes, chunk), from, Format::Json, &mut out) {
					Ok(()) if out == want => {}
					Ok(()) => bad.push(format!("{name}, reads of {chunk}, {how}: wrong output {:?}", String::from_utf8_lossy(&out))),
					Err(e) => bad.push(format!("{name}, reads of {chunk}, {how}: {e}")),
				}
			}
		}
	}
	assert!(bad.is_empty(), "{} violations, first: {:?}", bad.len(), &bad[..bad.len().min(3)]);
}

/// Detection never fails for a reason other than an I/O error of the source: text that looks like
/// UTF-16/32 YAML but ends inside a code unit or on a lone surrogate is simply "not detected".
#[test]
fn truncated_utf16_32_input_is_undetected_not_an_error() {
	let inputs: [&[u8]; 6] = [b"[\0a\0]", b"\0{\0a\0", b"-\0 \0\x3d\xd8", b"\xfe\xff\0a\0:\0", b"a\0\0\0:\0\0\0 \0", b"\0\0\0a\0\0\0:\0\0\0"];
	let mut bad = vec![];
	for input in inputs {
		let a = xt::translate_slice(input, None, Format::Json, io::sink()).map_err(|e| e.to_string());
		let b = xt::translate_reader(input, None, Format::Json, io::sink()).map_err(|e| e.to_string());
		for (how, r) in [("slice", a), ("reader", b)] {
			if r != Err("unable to detect input format".to_string()) {
				bad.push(format!("{input:02x?} from a {how}: {r:?}"));
			}
		}
	}
	assert!(bad.is_empty(), "{} violations, first: {:?}", bad.len(), &bad[..bad.len().min(3)]);
}

/// TOML output is nothing or exactly one document: a second document or input is refused even when
/// the first one was an EMPTY table (zero bytes written) or was itself refused.
#[test]
fn toml_output_refuses_every_second_document() {
	let mut bad = vec![];
	for (first, from) in [("{}", Format::Json), ("--- {}\n", Format::Yaml), ("[1]", Format::Json), ("{\"a\":null}", Format::Json), ("{\"a\":1}", Format::Json)] {
		let mut out = Vec::new();
		let mut t = xt::Translator::new(&mut out, Format::Toml);
		let r1 = t.translate_slice(first.as_bytes(), Some(from));
		let r2 = t.translate_slice(b"{\"b\":2}", Some(Format::Json));
		let r3 = t.translate_reader(&b"{\"c\":3}"[..], Some(Format::Json));
		drop(t);
		let text = String::from_utf8_lossy(&out).to_string();
		if r2.is_ok() || r3.is_ok() || text.contains("b = 2") || text.contains("c = 3") {
			bad.push(format!("after first document {first:?} (ok={}) a second document was accepted: output {text:?}", r1.is_ok()));
		}
	}
	for doc in ["{} {\"b\":2}", "{\"a\":1}\n{\"b\":2}"] {
		let mut out = Vec::new();
		let r = xt::translate_slice(doc.as_bytes(), Some(Format::Json), Format::Toml, &mut out);
		if r.is_ok() || String::from_utf8_lossy(&out).contains("b = 2") {
			bad.push(format!("two documents in one input {doc:?} were accepted: {:?}", String::from_utf8_lossy(&out)));
		}
	}
	// MessagePack binary data has no TOML representation
	for reader in [false, true] {
		let bin = [0x81u8, 0xa1, 0x61, 0xc4, 0x02, 0x01, 0x02];
		let mut out = Vec::new();
		let r = if reader { xt::translate_reader(&bin[..], Some(Format::Msgpack), Format::Toml, &mut out) } else { xt::translate_slice(&bin, Some(Format::Msgpack), Format::Toml, &mut out) };
		if r.is_ok() || !out.is_empty() {
			bad.push(format!("MessagePack bin must be refused for TOML output (reader={reader}): {:?}", String::from_utf8_lossy(&out)));
		}
	}
	for (doc, from) in [("[1,2]", Format::Json), ("7", Format::Json), ("{\"a\":{\"b\":[1,null]}}", Format::Json), ("a: ~\n", Format::Yaml)] {
		let mut out = Vec::new();
		let r = xt::translate_slice(doc.as_bytes(), Some(from), Format::Toml, &mut out);
		if r.is_ok() || !out.is_empty() {
			bad.push(format!("{doc:?} must be refused without output: ok={} output {:?}", r.is_ok(), String::from_utf8_lossy(&out)));
		}
	}
	assert!(bad.is_empty(), "{} violations, first: {:?}", bad.len(), &bad[..bad.len().min(3)]);
}

/// A writer that accepts only short pieces receives exactly the fault-free output, for every target.
#[test]
fn short_writes_deliver_exactly_the_output() {
	struct Short(Vec<u8>, usize);
	impl Write for Short {
		fn write(&mut self, b: &[u8]) -> io::Result<usize> {
			let n = self.1.min(b.len());
			self.0.extend_from_slice(&b[..n]);
			Ok(n)
		}
		fn flush(&mut self) -> io::Result<()> {
			Ok(())
		}
	}
	let mut bad = vec![];
	// TOML output (a single document) through a writer that accepts short pieces
	{
		let doc = format!("{{\"title\": \"{}\", \"n\": 1, \"t\": {{\"k\": [1, 2, 3]}}}}", "x".repeat(300));
		let mut full = Vec::new();
		xt::translate_slice(doc.as_bytes(), Some(Format::Json), Format::Toml, &mut full).unwrap();
		for k in [1usize, 7, 100] {
			let mut w = Short(vec![], k);
			let r = xt::translate_slice(doc.as_bytes(), Some(Format::Json), Format::Toml, &mut w);
			if r.is_err() || w.0 != full {
				bad.push(format!("TOML: writer accepting {k} byte(s) per call got {} of {} bytes", w.0.len(), full.len()));
			}
		}
	}
	let input = br#"{"a":[1,{"b":"x"}]} [2] "s""#;
	for to in [Format::Json, Format::Yaml, Format::Msgpack] {
		let mut full = Vec::new();
		xt::translate_slice(input, Some(Format::Json), to, &mut full).unwrap();
		for k in [1usize, 2, 3, 7] {
			for reader in [false, true] {
				let mut w = Short(vec![], k);
				let r = if reader { xt::translate_reader(&input[..], Some(Format::Json), to, &mut w) } else { xt::translate_slice(input, Some(Format::Json), to, &mut w) };
				if r.is_err() || w.0 != full {
					bad.push(format!("{to}: writer accepting {k} byte(s) per call got {:?}, expected {:?}", String::from_utf8_lossy(&w.0), String::from_utf8_lossy(&full)));
				}
			}
		}
	}
	assert!(bad.is_empty(), "{} violations, first: {:?}", bad.len(), &bad[..bad.len().min(3)]);
}

/// A detected format behaves exactly as if it had been named.
#[test]
fn detected_format_equals_named_format() {
	let mut bad = vec![];
	for (doc, fmt) in [(&b"{\"a\": [1, 2]}"[..], Format::Json), (&b"a:\n- 1\n- 2\n"[..], Format::Yaml), (&b"a = [1, 2]\n"[..], Format::Toml), (&[0x81u8, 0xa1, 0x61, 0x92, 1, 2][..], Format::Msgpack)] {
		for to in [Format::Json, Format::Yaml, Format::Msgpack, Format::Toml] {
			let (mut a, mut b) = (Vec::new(), Vec::new());
			let ra = xt::translate_slice(doc, None, to, &mut a).map_err(|e| e.to_string());
			let rb = xt::translate_slice(doc, Some(fmt), to, &mut b).map_err(|e| e.to_string());
			if ra != rb || a != b {
				bad.push(format!("{fmt} -> {to}: detected {ra:?} {:?} vs named {rb:?} {:?}", String::from_utf8_lossy(&a), String::from_utf8_lossy(&b)));
			}
		}
	}
	assert!(bad.is_empty(), "{} violations, first: {:?}", bad.len(), &bad[..bad.len().min(3)]);
}

/// Slice and reader input give the same verdict for JSON streams with zero documents and for JSON
/// followed or preceded by characters that Unicode, but not JSON, treats as white space.
#[test]
fn json_edge_inputs_slice_equals_reader() {
	let mut bad = vec![];
	for input in ["", " ", "\n\n", "{\"a\":1}\n\u{c}", "\u{a0}[1]", "[1]\u{2028}", "\u{85}7", "{\"a\":1} \u{3000}"] {
		for from in [Some(Format::Json), None] {
			let (mut a, mut b) = (Vec::new(), Vec::new());
			let ra = xt::translate_slice(input.as_bytes(), from, Format::Json, &mut a).is_ok();
			let rb = xt::translate_reader(input.as_bytes(), from, Format::Json, &mut b).is_ok();
			if ra != rb || (ra && a != b) {
				bad.push(format!("{input:?} (format named: {}): slice ok={ra} {:?}, reader ok={rb} {:?}", from.is_some(), String::from_utf8_lossy(&a), String::from_utf8_lossy(&b)));
			}
		}
	}
	// detection sees the same thing from a slice and from a reader, also with leading white space and
	// at the nesting depth where the JSON and YAML parsers' limits differ
	for depth in [1usize, 127, 128, 129] {
		let doc = format!("\n {}{}", "[".repeat(depth), "]".repeat(depth));
		let (mut a, mut b) = (Vec::new(), Vec::new());
		let ra = xt::translate_slice(doc.as_bytes(), None, Format::Json, &mut a).map_err(|e| e.to_string());
		let rb = xt::translate_reader(doc.as_bytes(), None, Format::Json, &mut b).map_err(|e| e.to_string());
		if ra.is_ok() != rb.is_ok() || (ra.is_ok() && a != b) {
			bad.push(format!("leading white space, depth {depth}: slice {ra:?} vs reader {rb:?}"));
		}
	}
	for input in ["", " \n "] {
		let r = xt::translate_reader(input.as_bytes(), Some(Format::Json), Format::Json, io::sink());
		if r.is_err() {
			bad.push(format!("an empty JSON stream {input:?} from a reader must translate to nothing, got {:?}", r.map_err(|e| e.to_string())));
		}
	}
	assert!(bad.is_empty(), "{} violations, first: {:?}", bad.len(), &bad[..bad.len().min(3)]);
}

/// A reader fault DURING DETECTION is reported with the reader's own message, whichever trial hits it.
#[test]
fn reader_fault_during_detection_is_reported() {
	let mut bad = vec![];
	let docs: [&[u8]; 4] = [b"a: 1\nb: [1, 2]\nc: {d: e}\n", b"[table] # comment\nkey = 1\nother = \"x\"\n", b"{\"a\": [1, 2, 3], \"b\": null}", &[0x82, 0xa1, 0x61, 0x01, 0xa1, 0x62, 0x92, 0x02, 0x03]];
	for doc in docs {
		for k in 0..doc.len() {
			let r = xt::translate_reader(FailRead { data: doc, pos: 0, fail_at: k }, None, Format::Json, io::sink());
			match r {
				Ok(()) => bad.push(format!("{:?}: reader failing after {k} bytes reported success", String::from_utf8_lossy(doc))),
				Err(e) => {
					if !e.to_string().contains("cable unplugged") {
						bad.push(format!("{:?}: reader failing after {k} bytes during detection: cause lost: {:?}", String::from_utf8_lossy(doc), e.to_string()));
					}
				}
			}
		}
	}
	assert!(bad.is_empty(), "{} violations, first: {:?}", bad.len(), &bad[..bad.len().min(3)]);
}

/// Truncated MessagePack of every kind is skipped by detection; TOML between 1 and 2 MiB that the
/// YAML trial rejects early is detected from a reader just as from a slice.
#[test]
fn detection_boundaries() {
	let mut bad = vec![];
	for inp in [&[0x91u8, 0xa5, 0x68, 0x65][..], &[0x92, 0x01][..], &[0x81, 0xa1][..], &[0xdd, 0x00, 0x00][..], "\u{0710}: \u{65e5}\n".as_bytes()] {
		for reader in [false, true] {
			let r = if reader { xt::translate_reader(inp, None, Format::Json, io::sink()) } else { xt::translate_slice(inp, None, Format::Json, io::sink()) };
			if let Err(e) = r {
				if !e.to_string().contains("unable to detect input format") {
					bad.push(format!("{inp:02x?} (reader={reader}): detection failed with {:?}", e.to_string()));
				}
			}
		}
	}
	let mut toml = String::from("[table] # comment\n");
	while toml.len() < 1_500_000 {
		toml.push_str("# padding padding padding padding padding padding padding\nkey = 1\n[t");
		toml.push_str(&toml.len().to_string());
		toml.push_str("]\n");
	}
	let (mut a, mut b) = (Vec::new(), Vec::new());
	let ra = xt::translate_slice(toml.as_bytes(), None, Format::Msgpack, &mut a).map_err(|e| e.to_string());
	let rb = xt::translate_reader(toml.as_bytes(), None, Format::Msgpack, &mut b).map_err(|e| e.to_string());
	if ra != rb || a != b {
		bad.push(format!("1.5 MB TOML: slice {ra:?} ({} bytes) vs reader {rb:?} ({} bytes)", a.len(), b.len()));
	}
	assert!(bad.is_empty(), "{} violations, first: {:?}", bad.len(), &bad[..bad.len().min(3)]);
}

/// YAML streams with every kind of document separator (---, ..., repeated ..., comments, directives)
/// give the same documents through the chunker (reader, any read size) as from a slice.
#[test]
fn yaml_separators_reader_equals_slice() {
	struct Tiny<'a>(&'a [u8], usize);
	impl<'a> Read for Tiny<'a> {
		fn read(&mut self, b: &mut [u8]) -> io::Result<usize> {
			let n = self.1.min(self.0.len()).min(b.len());
			b[..n].copy_from_slice(&self.0[..n]);
			self.0 = &self.0[n..];
			Ok(n)
		}
	}
	let streams = [
		"a: 1\n---\nb: 2\n",
		"a: 1\n...\n---\nb: 2\n",
		"a: 1\n...\n...\n---\nb: 2\n",
		"--- a\n--- b\n--- c\n",
		"# comment\n---\na: 1\n# between\n---\n# leading\nb: [1, 2]\n...\n",
		"%YAML 1.2\n---\na: 1\n...\n%YAML 1.2\n---\nb: 2\n",
		"- 1\n- 2\n---\n...\n---\nx\n",
		"a: 1\n...\n\n\n...\n---\n- b\n---\n- c\n...\n",
		// indented first lines: the chunk must keep the indentation in front of a document's first token
		"  a: 1\n  b: 2\n",
		"  - x\n  - y\n",
		"# c\n  a:\n    c: 1\n  b: 2\n---\n   - q\n   - r\n",
		"\n\n    k: [1, 2]\n    l:\n      - m\n",
	];
	let mut bad = vec![];
	for text in streams {
		for (how, from) in [("-f yaml", Some(Format::Yaml)), ("detected", None)] {
			let mut want = Vec::new();
			let rs = xt::translate_slice(text.as_bytes(), from, Format::Json, &mut want).map_err(|e| e.to_string());
			for chunk in [1usize, 3, 4096] {
				let mut out = Vec::new();
				let rr = xt::translate_reader(Tiny(text.as_bytes(), chunk), from, Format::Json, &mut out).map_err(|e| e.to_string());
				if rs.is_ok() != rr.is_ok() || (rs.is_ok() && out != want) {
					bad.push(format!("{text:?} reads of {chunk}, {how}: slice {rs:?} {:?} vs reader {rr:?} {:?}", String::from_utf8_lossy(&want), String::from_utf8_lossy(&out)));
				}
			}
		}
	}
	// one Translator, several auto-detected inputs in different formats: each is detected on its own
	let tricky = "{\"k\": \"a\u{85}b\", \"z\": -0}\n";
	let inputs: [(&[u8], Format); 5] = [(&[0x81u8, 0xa1, 0x61, 0x92, 1, 2], Format::Msgpack), (b"{\"a\": [1, 2]}\n", Format::Json), (b"a:\n- 1\n- 2\n", Format::Yaml), (b"1\n2\n3\n", Format::Json), (tricky.as_bytes(), Format::Json)];
	for first in 0..inputs.len() {
		for second in 0..inputs.len() {
			let (mut a, mut b) = (Vec::new(), Vec::new());
			let mut t = xt::Translator::new(&mut a, Format::Json);
			let r1 = t.translate_slice(inputs[first].0, None).is_ok();
			let r2 = t.translate_reader(inputs[second].0, None).is_ok();
			drop(t);
			let mut u = xt::Translator::new(&mut b, Format::Json);
			let s1 = u.translate_slice(inputs[first].0, Some(inputs[first].1)).is_ok();
			let s2 = u.translate_slice(inputs[second].0, Some(inputs[second].1)).is_ok();
			drop(u);
			if (r1, r2) != (s1, s2) || a != b {
				bad.push(format!("inputs {first} then {second} on one translator: detected {:?} vs named {:?}", String::from_utf8_lossy(&a), String::from_utf8_lossy(&b)));
			}
		}
	}
	assert!(bad.is_empty(), "{} violations, first: {:?}", bad.len(), &bad[..bad.len().min(3)]);
}

#[test]
fn syntax_error_at_every_position_keeps_the_parser_message() {
	let mut bad = vec![];
	for doc in DOCS {
		for k in 0..doc.len() {
			let mut broken = doc.as_bytes().to_vec();
			broken[k] = b'#';
			let mut msgs = vec![];
			for to in TARGETS {
				match xt::translate_reader(&broken[..], Some(Format::Json), to, io::sink()) {
					Ok(()) => {}
					Err(e) => msgs.push(e.to_string()),
				}
			}
			for m in &msgs {
				if m.contains("translation failed") {
					bad.push(format!("{} : {m:?}", String::from_utf8_lossy(&broken)));
				}
			}
			if msgs.windows(2).any(|w| w[0] != w[1]) {
				bad.push(format!("{} : message depends on the output format: {msgs:?}", String::from_utf8_lossy(&broken)));
			}
		}
	}
	assert!(bad.is_empty(), "{} violations, first: {:?}", bad.len(), &bad[..bad.len().min(3)]);
}

#[test]
fn long_collections_keep_their_announced_length() {
	// a length-prefixed target writes the element count the transcoder passes on into its header
	let mut bad = vec![];
	for n in [15usize, 16, 1023, 1024, 1025, 2000, 70000] {
		let mut arr = vec![];
		let mut map = vec![];
		if n < 16 {
			arr.push(0x90 | n as u8);
			map.push(0x80 | n as u8);
		} else if n < 65536 {
			arr.extend_from_slice(&[0xdc, (n >> 8) as u8, n as u8]);
			map.extend_from_slice(&[0xde, (n >> 8) as u8, n as u8]);
		} else {
			arr.push(0xdd);
			arr.extend_from_slice(&(n as u32).to_be_bytes());
			map.push(0xdf);
			map.extend_from_slice(&(n as u32).to_be_bytes());
		}
		for i in 0..n {
			arr.push((i % 100) as u8);
			map.extend_from_slice(&[0xa2, b'a' + (i % 26) as u8, b'a' + (i / 26 % 26) as u8, (i % 100) as u8]);
		}
		for (what, doc) in [("array", &arr), ("map", &map)] {
			for reader in [false, true] {
				let mut out = Vec::new();
				let r = if reader {
					xt::translate_reader(&doc[..], Some(Format::Msgpack), Format::Msgpack, &mut out)
				} else {
					xt::translate_slice(doc, Some(Format::Msgpack), Format::Msgpack, &mut out)
				};
				if r.is_err() || &out != doc {
					bad.push(format!("MessagePack {what} of {n} elements ({}) does not survive MessagePack -> MessagePack: {:?}, {} bytes out of {}, header {:02x?}",
						if reader { "reader" } else { "slice" }, r.err().map(|e| e.to_string()), out.len(), doc.len(), &out[..out.len().min(5)]));
				}
				// and through JSON text back to MessagePack
				let mut json = Vec::new();
				let mut back = Vec::new();
				if what == "array" && n <= 2000 {
					let ok = xt::translate_slice(doc, Some(Format::Msgpack), Format::Json, &mut json).is_ok()
						&& xt::translate_reader(&json[..], Some(Format::Json), Format::Msgpack, &mut back).is_ok();
					if !ok || &back != doc {
						bad.push(format!("MessagePack array of {n} elements -> JSON -> MessagePack differs from the original"));
					}
				}
			}
		}
	}
	assert!(bad.is_empty(), "{} violations, first: {:?}", bad.len(), &bad[..bad.len().min(3)]);
}

#[test]
fn scalar_kinds_and_integer_boundaries_survive_the_streaming_path() {
	let mut bad = vec![];
	// JSON text -> MessagePack bytes, every integer boundary keeps its value and its integer-ness
	let cases: [(&str, &[u8]); 13] = [
		// exactly representable as binary32, but its shortest binary64 spelling is long: must stay a binary64
		("0.10000000149011612", &[0xcb, 0x3f, 0xb9, 0x99, 0x99, 0xa0, 0x00, 0x00, 0x00]),
		("18446744073709551615", &[0xcf, 0xff, 0xff, 0xff, 0xff, 0xff, 0xff, 0xff, 0xff]),
		("9223372036854775808", &[0xcf, 0x80, 0, 0, 0, 0, 0, 0, 0]),
		("9223372036854775807", &[0xcf, 0x7f, 0xff, 0xff, 0xff, 0xff, 0xff, 0xff, 0xff]),
		("-9223372036854775808", &[0xd3, 0x80, 0, 0, 0, 0, 0, 0, 0]),
		("4294967296", &[0xcf, 0, 0, 0, 1, 0, 0, 0, 0]),
		("-2147483649", &[0xd3, 0xff, 0xff, 0xff, 0xff, 0x7f, 0xff, 0xff, 0xff]),
		("65536", &[0xce, 0, 1, 0, 0]),
		("-32769", &[0xd2, 0xff, 0xff, 0x7f, 0xff]),
		("1.5", &[0xcb, 0x3f, 0xf8, 0, 0, 0, 0, 0, 0]),
		("true", &[0xc3]),
		("null", &[0xc0]),
		("\"1\"", &[0xa1, b'1']),
	];
	for (text, want) in cases {
		for wrap in [false, true] {
			let doc = if wrap { format!("[{text}]") } else { text.to_string() };
			let mut expect = if wrap { vec![0x91] } else { vec![] };
			expect.extend_from_slice(want);
			let mut out = Vec::new();
			let r = xt::translate_reader(doc.as_bytes(), Some(Format::Json), Format::Msgpack, &mut out);
			if r.is_err() || out != expect {
				bad.push(format!("JSON {doc} (reader) -> MessagePack: {:02x?}, expected {:02x?} ({:?})", out, expect, r.err().map(|e| e.to_string())));
			}
			// and back
			let mut json = Vec::new();
			let r = xt::translate_reader(&expect[..], Some(Format::Msgpack), Format::Json, &mut json);
			if r.is_err() || String::from_utf8_lossy(&json).trim_end() != doc {
				bad.push(format!("MessagePack {:02x?} (reader) -> JSON: {:?}, expected {doc}", expect, String::from_utf8_lossy(&json)));
			}
			let mut yaml = Vec::new();
			let mut back = Vec::new();
			let ok = xt::translate_reader(&expect[..], Some(Format::Msgpack), Format::Yaml, &mut yaml).is_ok()
				&& xt::translate_reader(&yaml[..], Some(Format::Yaml), Format::Msgpack, &mut back).is_ok();
			if !ok || back != expect {
				bad.push(format!("MessagePack {:02x?} -> YAML {:?} -> MessagePack {:02x?}", expect, String::from_utf8_lossy(&yaml), back));
			}
		}
	}
	assert!(bad.is_empty(), "{} violations, first: {:?}", bad.len(), &bad[..bad.len().min(3)]);
}

#[test]
fn detection_judges_the_same_thing_from_a_slice_and_from_a_reader() {
	// streams whose FIRST value is one format's and whose rest is not: both supply modes must pick the same format
	let inputs: [&[u8]; 8] = [
		b"{\"a\": 1}\n---\nfoo: bar\n",
		b"[1, 2]\n# a YAML comment\n",
		b"{\"a\": 1} trailing text\n",
		b"[1]\n[2]\n{\n",
		b"\x92\x01\x02\xc1\xc1",
		b"\x81\xa1a\x01 then text",
		b"{\"k\": [1, {\"z\": null}]}\n- not json\n",
		b"[]\n\t\n%%%\n",
	];
	let mut bad = vec![];
	for input in inputs {
		for to in [Format::Json, Format::Yaml] {
			let mut o1 = Vec::new();
			let r1 = xt::translate_slice(input, None, to, &mut o1).map_err(|e| e.to_string());
			for chunk in [1usize, 2, 4096] {
				struct Tiny<'a>(&'a [u8], usize);
				impl<'a> Read for Tiny<'a> {
					fn read(&mut self, b: &mut [u8]) -> io::Result<usize> {
						let n = self.1.min(self.0.len()).min(b.len());
						b[..n].copy_from_slice(&self.0[..n]);
						self.0 = &self.0[n..];
						Ok(n)
					}
				}
				let mut o2 = Vec::new();
				let r2 = xt::translate_reader(Tiny(input, chunk), None, to, &mut o2).map_err(|e| e.to_string());
				let comparable = o1.starts_with(&o2) || o2.starts_with(&o1);
				if r1.is_ok() != r2.is_ok() || (r1.is_ok() && o1 != o2) || !comparable {
					bad.push(format!("{:?} -> {to}: slice {r1:?} {:?}, reader (reads of {chunk}) {r2:?} {:?}", String::from_utf8_lossy(input), String::from_utf8_lossy(&o1), String::from_utf8_lossy(&o2)));
				}
			}
		}
	}
	assert!(bad.is_empty(), "{} violations, first: {:?}", bad.len(), &bad[..bad.len().min(3)]);
}

#[test]
fn detection_skips_a_candidate_that_runs_out_of_input() {
	// every proper prefix of a document that opens a collection: no format can claim it with a complete first value
	// from the start, so the only acceptable outcomes are success (some other format accepts the prefix) or the one
	// detection error - never a parser's own complaint about the end of the input
	let docs: [&[u8]; 6] = [
		b"{\"xt\": [1, 2, {\"k\": \"v\"}], \"b\": true}",
		b"[[1, 2], [3, [4, 5]], \"s\"]",
		b"[\"a\\u00e9\", 1.5e3, null]",
		&[0x93, 0x01, 0x92, 0x02, 0xa3, b'a', b'b', b'c', 0x81, 0xa1, b'k', 0xcb, 1, 2, 3, 4, 5, 6, 7, 8],
		&[0xdc, 0x00, 0x03, 0xcd, 0x01, 0x00, 0xd9, 0x02, b'h', b'i', 0xc0],
		&[0xde, 0x00, 0x01, 0xa1, b'k', 0xdd, 0x00, 0x00, 0x00, 0x01, 0xc3],
	];
	struct Tiny<'a>(&'a [u8], usize);
	impl<'a> Read for Tiny<'a> {
		fn read(&mut self, b: &mut [u8]) -> io::Result<usize> {
			let n = self.1.min(self.0.len()).min(b.len());
			b[..n].copy_from_slice(&self.0[..n]);
			self.0 = &self.0[n..];
			Ok(n)
		}
	}
	let mut bad = vec![];
	for doc in docs {
		for k in 1..doc.len() {
			let prefix = &doc[..k];
			let r1 = xt::translate_slice(prefix, None, Format::Json, io::sink()).map_err(|e| e.to_string());
			let r2 = xt::translate_reader(Tiny(prefix, 2), None, Format::Json, io::sink()).map_err(|e| e.to_string());
			for (how, r) in [("slice", &r1), ("reader", &r2)] {
				if let Err(m) = r {
					if m != "unable to detect input format" && (m.contains("EOF") || m.contains("end of") || m.contains("fill whole buffer") || m.contains("unexpected end")) {
						bad.push(format!("prefix {:02x?} ({how}): detection fails with {m:?}", prefix));
					}
				}
			}
		}
	}
	assert!(bad.is_empty(), "{} violations, first: {:?}", bad.len(), &bad[..bad.len().min(3)]);
}
