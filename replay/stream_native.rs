// Native confirmation for family D (streaming transcoder) counterexamples, used when Kani cannot
// emit a concrete playback test for them: a single-fault sweep over a small corpus through the
// REAL serde_json / serde_yaml / rmp-serde crates and the public API. It states C11/C12 natively:
//  * a writer that starts failing at any byte is named as the cause (its message is in the error
//    text) and what it accepted is a prefix of the fault-free output;
//  * a reader that starts failing at any byte is named as the cause;
//  * a syntax error at any position is reported with the parser's message, never "translation failed".
// Run: copy to <xt checkout>/tests/stream_native.rs && cargo test --offline --test stream_native
use std::io::{self, Read, Write};
use xt::Format;

struct FailAt {
	seen: Vec<u8>,
	fail_at: usize,
}
impl Write for FailAt {
	fn write(&mut self, b: &[u8]) -> io::Result<usize> {
		if self.seen.len() >= self.fail_at {
			return Err(io::Error::new(io::ErrorKind::Other, "disk on fire"));
		}
		let n = (self.fail_at - self.seen.len()).min(b.len());
		self.seen.extend_from_slice(&b[..n]);
		Ok(n)
	}
	fn flush(&mut self) -> io::Result<()> {
		Ok(())
	}
}
struct FailRead<'a> {
	data: &'a [u8],
	pos: usize,
	fail_at: usize,
}
impl<'a> Read for FailRead<'a> {
	fn read(&mut self, b: &mut [u8]) -> io::Result<usize> {
		if self.pos >= self.fail_at {
			return Err(io::Error::new(io::ErrorKind::Other, "cable unplugged"));
		}
		let n = (self.fail_at - self.pos).min(self.data.len() - self.pos).min(b.len()).min(3);
		b[..n].copy_from_slice(&self.data[self.pos..self.pos + n]);
		self.pos += n;
		Ok(n)
	}
}

const DOCS: [&str; 3] = [r#"[1,2,{"a":3}]"#, r#"{"a":[1,{"b":null}],"c":"x"}"#, r#"[[],{},[{"k":[true]}]]"#];
const TARGETS: [Format; 3] = [Format::Json, Format::Yaml, Format::Msgpack];

#[test]
fn writer_fault_at_every_byte_is_attributed_to_the_writer() {
	let mut bad = vec![];
	for doc in DOCS {
		for to in TARGETS {
			let mut full = Vec::new();
			xt::translate_reader(doc.as_bytes(), Some(Format::Json), to, &mut full).unwrap();
			for k in 0..full.len() {
				let mut w = FailAt { seen: vec![], fail_at: k };
				match xt::translate_reader(doc.as_bytes(), Some(Format::Json), to, &mut w) {
					Ok(()) => bad.push(format!("{doc} -> {to}: writer failing at byte {k} reported success")),
					Err(e) => {
						let msg = e.to_string();
						// rmp-serde's own reason for a failed write does not quote the underlying I/O error
						let named = msg.contains("disk on fire") || (matches!(to, Format::Msgpack) && msg.contains("invalid value write"));
						if !named {
							bad.push(format!("{doc} -> {to}: writer failing at byte {k}: cause lost: {msg:?}"));
						}
					}
				}
				if !full.starts_with(&w.seen) {
					bad.push(format!("{doc} -> {to}: bytes accepted before the fault at {k} are not a prefix of the fault-free output"));
				}
			}
		}
	}
	assert!(bad.is_empty(), "{} violations, first: {:?}", bad.len(), &bad[..bad.len().min(3)]);
}

#[test]
fn reader_fault_at_every_byte_is_attributed_to_the_reader() {
	let mut bad = vec![];
	for doc in DOCS {
		for to in TARGETS {
			for k in 0..doc.len() {
				let mut out = Vec::new();
				let r = xt::translate_reader(FailRead { data: doc.as_bytes(), pos: 0, fail_at: k }, Some(Format::Json), to, &mut out);
				match r {
					Ok(()) => bad.push(format!("{doc} -> {to}: reader failing at byte {k} reported success")),
					Err(e) => {
						let msg = e.to_string();
						if !msg.contains("cable unplugged") {
							bad.push(format!("{doc} -> {to}: reader failing at byte {k}: cause lost: {msg:?}"));
						}
					}
				}
			}
		}
	}
	assert!(bad.is_empty(), "{} violations, first: {:?}", bad.len(), &bad[..bad.len().min(3)]);
}

#[test]
fn syntax_error_at_every_position_keeps_the_parser_message() {
	let mut bad = vec![];
	for doc in DOCS {
		for k in 0..doc.len() {
			let mut broken = doc.as_bytes().to_vec();
			broken[k] = b'#';
			let mut msgs = vec![];
			for to in TARGETS {
				match xt::translate_reader(&broken[..], Some(Format::Json), to, io::sink()) {
					Ok(()) => {}
					Err(e) => msgs.push(e.to_string()),
				}
			}
			for m in &msgs {
				if m.contains("translation failed") {
					bad.push(format!("{} : {m:?}", String::from_utf8_lossy(&broken)));
				}
			}
			if msgs.windows(2).any(|w| w[0] != w[1]) {
				bad.push(format!("{} : message depends on the output format: {msgs:?}", String::from_utf8_lossy(&broken)));
			}
		}
	}
	assert!(bad.is_empty(), "{} violations, first: {:?}", bad.len(), &bad[..bad.len().min(3)]);
}
