// Native confirmation for family A counterexamples: runs the real, unstubbed
// next_value_size on the counterexample's bytes (and on a directed neighbourhood: every
// prefix, wrapped in array/map headers of the counterexample's count, small depth limits)
// and compares with the reference sizer written from the MessagePack spec.
use super::*;

include!("../harness/msgpack_ref.rs");

fn err_code(e: &ReadSizeError) -> u8 {
	match e {
		ReadSizeError::Truncated => 0,
		ReadSizeError::InvalidMarker => 1,
		ReadSizeError::DepthLimitExceeded => 2,
	}
}

fn field<'a>(txt: &'a str, name: &str) -> Option<&'a str> {
	let k = format!("\"{}\":", name);
	let i = txt.find(&k)? + k.len();
	let rest = txt[i..].trim_start();
	if rest.starts_with('[') {
		Some(&rest[..=rest.find(']')?])
	} else {
		let end = rest.find(|c: char| c == ',' || c == '}').unwrap_or(rest.len());
		Some(rest[..end].trim())
	}
}

fn one(input: &[u8], d: usize, bad: &mut usize) {
	let got = std::panic::catch_unwind(|| next_value_size(input, d));
	let want = ref_size(input, d);
	let ok = match (&got, &want) {
		(Ok(Ok(a)), Ok(b)) => a == b && *a <= input.len(),
		(Ok(Err(e)), Err(c)) => err_code(e) == *c,
		_ => false,
	};
	if !ok {
		if *bad < 5 {
			println!(
				"NATIVE-MISMATCH next_value_size({:02x?}, depth_limit={}) = {:?}, reference = {:?} (Err codes: 0 Truncated, 1 InvalidMarker, 2 DepthLimitExceeded)",
				input, d, got.map_err(|_| "PANIC"), want
			);
		}
		*bad += 1;
	}
}

#[test]
fn replay() {
	let path = std::env::var("XT_VERIF_CE").expect("XT_VERIF_CE");
	let txt = std::fs::read_to_string(path).unwrap();
	let buf: Vec<u8> = field(&txt, "buf")
		.map(|s| s.trim_matches(|c| c == '[' || c == ']').split(',').filter_map(|x| x.trim().parse().ok()).collect())
		.unwrap_or_default();
	let len: usize = field(&txt, "len").and_then(|s| s.parse().ok()).unwrap_or(buf.len()).min(buf.len());
	let d: usize = field(&txt, "d").and_then(|s| s.parse().ok()).unwrap_or(1);
	let count: u32 = field(&txt, "count").and_then(|s| s.parse().ok()).unwrap_or(0);
	let base = buf[..len].to_vec();

	let mut cands: Vec<Vec<u8>> = vec![base.clone()];
	// the counterexample of a seq/map step speaks about the *contents* of a collection
	let mut headers: Vec<Vec<u8>> = Vec::new();
	for c in [count, count.min(15), 1, 2] {
		if c < 16 {
			headers.push(vec![0x90 | c as u8]);
			headers.push(vec![0x80 | c as u8]);
		}
		if c <= 0xffff {
			headers.push([&[0xdc][..], &(c as u16).to_be_bytes()].concat());
			headers.push([&[0xde][..], &(c as u16).to_be_bytes()].concat());
		}
		headers.push([&[0xdd][..], &c.to_be_bytes()].concat());
		headers.push([&[0xdf][..], &c.to_be_bytes()].concat());
	}
	for h in &headers {
		cands.push([&h[..], &base[..]].concat());
		// a collection of small scalars with that header
		cands.push([&h[..], &[1u8, 2, 3, 4, 5, 6, 7, 8][..]].concat());
		cands.push([&h[..], &[0x91u8, 0x91, 0x01, 0x81, 0x01, 0x02][..]].concat());
	}
	let mut bad = 0usize;
	for c in &cands {
		for cut in 0..=c.len() {
			let mut ds: Vec<usize> = (0..=12).collect();
			ds.push(d);
			ds.push(DEPTH_LIMIT);
			for dd in ds {
				one(&c[..cut], dd, &mut bad);
			}
		}
	}
	assert!(bad == 0, "{} native mismatches between next_value_size and the reference", bad);
}
