// Native replays, against the REAL crates and the public API, of the genuine defects that the
// solver harnesses found on the pinned tree (DESIGN.md section 7). Each test asserts what the
// property demands: it FAILS on the pinned tree and PASSES after the corresponding `fix:` commit.
// Run: copy to <xt checkout>/tests/defects_native.rs && cargo test --offline --test defects_native
use std::io::{self, Read, Write};
use xt::Format;

struct FailAt {
	seen: Vec<u8>,
	fail_at: usize,
}
impl Write for FailAt {
	fn write(&mut self, b: &[u8]) -> io::Result<usize> {
		if self.seen.len() >= self.fail_at {
			return Err(io::Error::new(io::ErrorKind::Other, "disk on fire"));
		}
		let n = (self.fail_at - self.seen.len()).min(b.len());
		self.seen.extend_from_slice(&b[..n]);
		Ok(n)
	}
	fn flush(&mut self) -> io::Result<()> {
		Ok(())
	}
}
struct OneByte<'a>(&'a [u8]);
impl<'a> Read for OneByte<'a> {
	fn read(&mut self, b: &mut [u8]) -> io::Result<usize> {
		if self.0.is_empty() || b.is_empty() {
			return Ok(0);
		}
		b[0] = self.0[0];
		self.0 = &self.0[1..];
		Ok(1)
	}
}

/// F1 (C11, harness d2_attribution): a writer that starts failing at ANY byte of the output must
/// be named as the cause, also when the failing write is a separator or a bracket.
#[test]
fn f1_write_failure_at_every_byte_names_the_writer() {
	let input = br#"[1,2,{"a":3}]"#;
	let mut full = Vec::new();
	xt::translate_reader(&input[..], Some(Format::Json), Format::Json, &mut full).unwrap();
	let mut bad = vec![];
	for k in 0..full.len() {
		let mut w = FailAt { seen: vec![], fail_at: k };
		let msg = xt::translate_reader(&input[..], Some(Format::Json), Format::Json, &mut w).unwrap_err().to_string();
		if !msg.contains("disk on fire") {
			bad.push((k, full[k] as char, msg));
		}
		assert!(full.starts_with(&w.seen), "bytes accepted before the fault are a prefix of the fault-free output");
	}
	assert!(bad.is_empty(), "write failures whose cause is lost: {bad:?}");
}

/// F2 (C09, harness i1_msgpack_detect_slice): running out of input in the MessagePack trial is
/// "not MessagePack", never a detection failure.
#[test]
fn f2_truncated_msgpack_collection_is_skipped_by_detection() {
	for inp in [&[0x91u8][..], &[0xdc, 0x00][..], "\u{0700}a: b\n".as_bytes()] {
		let r1 = xt::translate_slice(inp, None, Format::Json, io::sink()).map_err(|e| e.to_string());
		let r2 = xt::translate_reader(OneByte(inp), None, Format::Json, io::sink()).map_err(|e| e.to_string());
		for r in [r1, r2] {
			if let Err(msg) = r {
				assert!(msg.contains("unable to detect input format"), "input {inp:02x?}: detection failed with {msg:?}");
			}
		}
	}
	// the YAML text starting with U+0700 translates once MessagePack is skipped
	let mut out = Vec::new();
	xt::translate_slice("\u{0700}a: b\n".as_bytes(), None, Format::Json, &mut out).unwrap();
	assert_eq!(String::from_utf8(out).unwrap(), "{\"\u{0700}a\":\"b\"}\n");
}

/// F3 (C07/C02, harness i2_yaml_routing): ASCII-only UTF-16/32 YAML from a slice translates
/// exactly like the same bytes from a reader.
#[test]
fn f3_ascii_only_utf16_yaml_slice_equals_reader() {
	let text = "a: b\n";
	let encodings: Vec<Vec<u8>> = vec![
		text.encode_utf16().flat_map(|u| u.to_le_bytes()).collect(),
		text.encode_utf16().flat_map(|u| u.to_be_bytes()).collect(),
		text.chars().flat_map(|c| (c as u32).to_le_bytes()).collect(),
		text.chars().flat_map(|c| (c as u32).to_be_bytes()).collect(),
	];
	for bytes in encodings {
		let mut o1 = Vec::new();
		let r1 = xt::translate_slice(&bytes, Some(Format::Yaml), Format::Json, &mut o1).map_err(|e| e.to_string());
		let mut o2 = Vec::new();
		let r2 = xt::translate_reader(&bytes[..], Some(Format::Yaml), Format::Json, &mut o2).map_err(|e| e.to_string());
		assert_eq!(r2, Ok(()));
		assert_eq!(String::from_utf8_lossy(&o2), "{\"a\":\"b\"}\n");
		assert_eq!((r1, o1), (Ok(()), o2), "slice and reader disagree for {bytes:02x?}");
	}
}

/// F4 (C02/C01/C03, harness g1_chunkreader_step): a YAML stream whose first line is indented gives the
/// same result through the chunker (reader input, format named) as from a slice.
#[test]
fn f4_indented_first_line_reader_equals_slice() {
	struct Tiny<'a>(&'a [u8], usize);
	impl std::io::Read for Tiny<'_> {
		fn read(&mut self, b: &mut [u8]) -> std::io::Result<usize> {
			let n = self.0.len().min(b.len()).min(self.1);
			b[..n].copy_from_slice(&self.0[..n]);
			self.0 = &self.0[n..];
			Ok(n)
		}
	}
	let docs = [
		"  - x\n  - y\n",
		"  a: 1\n  b: 2\n",
		"\n  a: 1\n  b: 2\n",
		"# c\n  a: 1\n  b: 2\n",
		"  a:\n    c: 1\n  b: 2\n",
		" - [1, 2]\n - k: v\n",
		"k: 1\n---\n   a: 1\n   b: 2\n",
		"    - deep\n    - indent\n---\n  - second\n  - doc\n",
	];
	for doc in docs {
		let mut o1 = Vec::new();
		let r1 = xt::translate_slice(doc.as_bytes(), Some(Format::Yaml), Format::Json, &mut o1).map_err(|e| e.to_string());
		assert_eq!(r1, Ok(()), "{doc:?} from a slice");
		for chunk in [1usize, 2, 5, 4096] {
			let mut o2 = Vec::new();
			let r2 = xt::translate_reader(Tiny(doc.as_bytes(), chunk), Some(Format::Yaml), Format::Json, &mut o2).map_err(|e| e.to_string());
			assert_eq!((r2, String::from_utf8_lossy(&o2).into_owned()), (Ok(()), String::from_utf8_lossy(&o1).into_owned()), "{doc:?} from a reader (reads of {chunk}) differs from the slice result");
		}
	}
}

/// F5 (C02, harness i5_yaml_docless_slice; recorded, not repaired): a YAML stream without any document gives the
/// same verdict and output from a slice as from a reader.
#[test]
fn f5_document_less_yaml_slice_equals_reader() {
	let mut bad = vec![];
	for doc in ["", "\n", "\n\n", "   \n", "# only a comment\n", "# a\n\n# b\n"] {
		for to in [Format::Json, Format::Yaml, Format::Msgpack] {
			let mut o1 = Vec::new();
			let r1 = xt::translate_slice(doc.as_bytes(), Some(Format::Yaml), to, &mut o1).map_err(|e| e.to_string());
			let mut o2 = Vec::new();
			let r2 = xt::translate_reader(doc.as_bytes(), Some(Format::Yaml), to, &mut o2).map_err(|e| e.to_string());
			if r1.is_ok() != r2.is_ok() || (r1.is_ok() && o1 != o2) {
				bad.push(format!("{doc:?} -> {to}: slice {r1:?} {:?}, reader {r2:?} {:?}", String::from_utf8_lossy(&o1), String::from_utf8_lossy(&o2)));
			}
		}
	}
	assert!(bad.is_empty(), "{} violations, first: {}", bad.len(), bad[0]);
}

/// F3, second half (harness i2_yaml_routing): UTF-16BE / UTF-32BE text whose bytes also happen to be valid, non-ASCII
/// UTF-8 (U+C3A9 is the byte pair C3 A9 = "e with acute" in UTF-8) is still re-encoded when it comes from a slice.
#[test]
fn f3_utf16_text_that_is_also_valid_non_ascii_utf8() {
	for text in ["a: \u{c3a9}\n", "k: \"\u{c2a0}\u{c3a9}\u{c9a8}\"\n", "- \u{d0b0}\n- \u{c3a9}: 1\n"] {
		let mut want = Vec::new();
		xt::translate_slice(text.as_bytes(), Some(Format::Yaml), Format::Json, &mut want).unwrap();
		let utf16: Vec<u8> = text.encode_utf16().flat_map(|u| u.to_be_bytes()).collect();
		let utf32: Vec<u8> = text.chars().flat_map(|c| (c as u32).to_be_bytes()).collect();
		for bytes in [&utf16, &utf32] {
			assert!(std::str::from_utf8(bytes).is_ok(), "test premise: the encoded bytes are valid UTF-8");
			let mut o1 = Vec::new();
			let r1 = xt::translate_slice(bytes, Some(Format::Yaml), Format::Json, &mut o1).map_err(|e| e.to_string());
			let mut o2 = Vec::new();
			let r2 = xt::translate_reader(&bytes[..], Some(Format::Yaml), Format::Json, &mut o2).map_err(|e| e.to_string());
			assert_eq!((r2, &o2), (Ok(()), &want), "reader: {bytes:02x?}");
			assert_eq!((r1, &o1), (Ok(()), &want), "slice: {bytes:02x?} is UTF-16/32 by the YAML rules and must be re-encoded");
		}
	}
}
