// Native confirmation for the YAML re-encoder harnesses (family B, src/yaml/encoding.rs) when Kani's concrete
// playback cannot produce a test (its trace-producing run is much heavier than the verdict run): the statement of
// C07 itself, through the REAL crates and the public API, for EVERY Unicode scalar value that YAML allows in a
// quoted string: a stream encoded as UTF-16 / UTF-32, either byte order, with or without a byte order mark, from a
// slice and from a reader in awkward read sizes, translates to exactly the bytes the same text gives in UTF-8; and
// ill-formed input is an error, never fabricated characters.
// Run: copy to <xt checkout>/tests/encoding_native.rs && cargo test --offline --release --test encoding_native
use std::io::{self, Read};
use xt::Format;

struct Tiny<'a>(&'a [u8], usize);
impl Read for Tiny<'_> {
	fn read(&mut self, b: &mut [u8]) -> io::Result<usize> {
		let n = self.0.len().min(b.len()).min(self.1);
		b[..n].copy_from_slice(&self.0[..n]);
		self.0 = &self.0[n..];
		Ok(n)
	}
}

fn printable(c: u32) -> bool {
	// YAML 1.2 c-printable minus the two characters that need escaping inside double quotes
	matches!(c, 0x20..=0x7e | 0x85 | 0xa0..=0xd7ff | 0xe000..=0xfffd | 0x10000..=0x10ffff) && c != 0x22 && c != 0x5c && c != 0xfeff
}

fn encode(text: &str, unit: usize, big: bool, bom: bool) -> Vec<u8> {
	let mut out = vec![];
	let mut put = |v: u32| match (unit, big) {
		(2, false) => out.extend_from_slice(&(v as u16).to_le_bytes()),
		(2, true) => out.extend_from_slice(&(v as u16).to_be_bytes()),
		(_, false) => out.extend_from_slice(&v.to_le_bytes()),
		(_, true) => out.extend_from_slice(&v.to_be_bytes()),
	};
	if bom {
		put(0xfeff);
	}
	for c in text.chars() {
		if unit == 2 {
			let mut b = [0u16; 2];
			for u in c.encode_utf16(&mut b) {
				put(*u as u32);
			}
		} else {
			put(c as u32);
		}
	}
	out
}

#[test]
fn every_scalar_value_survives_utf16_and_utf32() {
	// documents of 8192 characters each, covering every printable scalar value once
	let mut docs: Vec<String> = vec![];
	let mut cur = String::from("s: \"");
	let mut n = 0;
	for c in (0x20u32..=0x10ffff).filter(|c| printable(*c)) {
		cur.push(char::from_u32(c).unwrap());
		n += 1;
		if n % 8192 == 0 {
			cur.push_str("\"\n");
			docs.push(std::mem::replace(&mut cur, String::from("s: \"")));
		}
	}
	cur.push_str("\"\n");
	docs.push(cur);
	// the whole set as one multi-document stream keeps the run short
	let text: String = docs.iter().map(|d| format!("---\n{d}")).collect();
	let mut want = Vec::new();
	xt::translate_slice(text.as_bytes(), Some(Format::Yaml), Format::Json, &mut want).expect("the UTF-8 text translates");
	let mut bad = vec![];
	for unit in [2usize, 4] {
		for big in [false, true] {
			for bom in [false, true] {
				let bytes = encode(&text, unit, big, bom);
				let name = format!("UTF-{}{}{}", unit * 8, if big { "BE" } else { "LE" }, if bom { " with BOM" } else { "" });
				let mut out = Vec::new();
				match xt::translate_slice(&bytes, Some(Format::Yaml), Format::Json, &mut out) {
					Err(e) => bad.push(format!("{name} slice: error {e}")),
					Ok(()) if out != want => bad.push(format!("{name} slice: output differs from the UTF-8 result at byte {}", out.iter().zip(&want).position(|(a, b)| a != b).unwrap_or(out.len().min(want.len())))),
					Ok(()) => {}
				}
				for chunk in [1usize, 3, 7, 16384] {
					if chunk == 1 && unit == 4 {
						continue; // (time)
					}
					let mut out = Vec::new();
					match xt::translate_reader(Tiny(&bytes, chunk), Some(Format::Yaml), Format::Json, &mut out) {
						Err(e) => bad.push(format!("{name} reader (reads of {chunk}): error {e}")),
						Ok(()) if out != want => bad.push(format!("{name} reader (reads of {chunk}): output differs from the UTF-8 result at byte {}", out.iter().zip(&want).position(|(a, b)| a != b).unwrap_or(out.len().min(want.len())))),
						Ok(()) => {}
					}
				}
			}
		}
	}
	assert!(bad.is_empty(), "{} violations, first: {}", bad.len(), bad[0]);
}

#[test]
fn small_documents_every_encoding_every_read_size() {
	// short texts where characters and their UTF-8 expansions straddle every buffer end; also a BOM-like
	// character inside the text, which is data, and detection (no format named)
	let texts = ["a: \u{e9}\n", "k: \"\u{1f600}\u{10ffff}\u{10000}\"\n", "- \u{20ac}\u{20ac}\n- x\n---\n- \u{65e5}\u{672c}\n", "t: \"a\u{feff}b\"\n", "\"\u{feff}key\": 1\n", "- \u{fffd}\u{e000}\u{d7ff}\n"];
	let mut bad = vec![];
	for text in texts {
		let mut want = Vec::new();
		xt::translate_slice(text.as_bytes(), Some(Format::Yaml), Format::Json, &mut want).expect("UTF-8 text translates");
		for unit in [2usize, 4] {
			for big in [false, true] {
				for bom in [false, true] {
					let bytes = encode(text, unit, big, bom);
					for from in [Some(Format::Yaml), None] {
						for chunk in [0usize, 1, 2, 3, 5] {
							let mut out = Vec::new();
							let r = if chunk == 0 { xt::translate_slice(&bytes, from, Format::Json, &mut out) } else { xt::translate_reader(Tiny(&bytes, chunk), from, Format::Json, &mut out) };
							if r.is_err() || out != want {
								bad.push(format!("{text:?} as UTF-{}{}{} ({}, {}): {:?} {:?}, UTF-8 gives {:?}", unit * 8, if big { "BE" } else { "LE" }, if bom { "+BOM" } else { "" },
									if chunk == 0 { "slice".to_string() } else { format!("reads of {chunk}") }, if from.is_some() { "named" } else { "detected" },
									r.err().map(|e| e.to_string()), String::from_utf8_lossy(&out), String::from_utf8_lossy(&want)));
							}
						}
					}
				}
			}
		}
	}
	assert!(bad.is_empty(), "{} violations, first: {}", bad.len(), bad[0]);
}

#[test]
fn ill_formed_utf16_and_utf32_is_an_error() {
	let mut bad = vec![];
	let head = "a: \"x";
	let tail = "y\"\n";
	// UTF-16: lone lead, lone trail, reversed pair, lead at the end of input, truncated unit
	let seqs16: [(&str, Vec<u16>); 5] = [("lone lead", vec![0xd800]), ("lone trail", vec![0xdc00]), ("reversed pair", vec![0xdc00, 0xd800]), ("lead then BMP", vec![0xdbff, 0x41]), ("trail then lead", vec![0xdfff, 0xd800, 0x41])];
	for big in [false, true] {
		for (what, units) in &seqs16 {
			let mut bytes = encode(head, 2, big, true);
			for u in units {
				bytes.extend_from_slice(&if big { u.to_be_bytes() } else { u.to_le_bytes() });
			}
			bytes.extend_from_slice(&encode(tail, 2, big, false));
			for chunk in [0usize, 1, 3] {
				let mut out = Vec::new();
				let r = if chunk == 0 { xt::translate_slice(&bytes, Some(Format::Yaml), Format::Json, &mut out) } else { xt::translate_reader(Tiny(&bytes, chunk), Some(Format::Yaml), Format::Json, &mut out) };
				if r.is_ok() {
					bad.push(format!("UTF-16{} {what}: accepted, output {:?}", if big { "BE" } else { "LE" }, String::from_utf8_lossy(&out)));
				}
			}
		}
		// a lead surrogate as the very last unit, and an odd number of bytes
		let mut bytes = encode("a: x", 2, big, true);
		bytes.extend_from_slice(&if big { 0xd800u16.to_be_bytes() } else { 0xd800u16.to_le_bytes() });
		let mut out = Vec::new();
		if xt::translate_slice(&bytes, Some(Format::Yaml), Format::Json, &mut out).is_ok() {
			bad.push(format!("UTF-16 lead surrogate at the end of input: accepted, output {:?}", String::from_utf8_lossy(&out)));
		}
		let mut bytes = encode("a: xy\n", 2, big, true);
		bytes.pop();
		let mut out = Vec::new();
		if xt::translate_reader(Tiny(&bytes, 2), Some(Format::Yaml), Format::Json, &mut out).is_ok() {
			bad.push(format!("UTF-16 truncated code unit: accepted, output {:?}", String::from_utf8_lossy(&out)));
		}
	}
	for big in [false, true] {
		for v in [0xd800u32, 0xdfff, 0x110000, 0xffffffff, 0x00200000] {
			let mut bytes = encode(head, 4, big, true);
			bytes.extend_from_slice(&if big { v.to_be_bytes() } else { v.to_le_bytes() });
			bytes.extend_from_slice(&encode(tail, 4, big, false));
			for chunk in [0usize, 1, 5] {
				let mut out = Vec::new();
				let r = if chunk == 0 { xt::translate_slice(&bytes, Some(Format::Yaml), Format::Json, &mut out) } else { xt::translate_reader(Tiny(&bytes, chunk), Some(Format::Yaml), Format::Json, &mut out) };
				if r.is_ok() {
					bad.push(format!("UTF-32{} value {v:#x}: accepted, output {:?}", if big { "BE" } else { "LE" }, String::from_utf8_lossy(&out)));
				}
			}
		}
		for cut in 1..4 {
			let mut bytes = encode("a: xy\n", 4, big, true);
			bytes.truncate(bytes.len() - cut);
			let mut out = Vec::new();
			if xt::translate_reader(Tiny(&bytes, 3), Some(Format::Yaml), Format::Json, &mut out).is_ok() {
				bad.push(format!("UTF-32 code unit truncated by {cut}: accepted, output {:?}", String::from_utf8_lossy(&out)));
			}
		}
	}
	assert!(bad.is_empty(), "{} violations, first: {}", bad.len(), bad[0]);
}
