// Native confirmation for the over-reporting-source harnesses (C17 / C04): a reader that breaks
// the Read contract by claiming more bytes than the buffer it was handed can hold. Through the
// REAL crates and the public API, for every (input, lying call, excess, from, to) of a small grid
// the only acceptable outcomes are a clean panic, a returned error, or exactly the translation of
// the bytes the reader really produced. Every fresh allocation is filled with ASCII '7' so that
// "bytes the reader never wrote" are deterministic and visible in the output.
// Run: copy to <xt checkout>/tests/overclaim_native.rs && cargo test --offline --test overclaim_native
use std::alloc::{GlobalAlloc, Layout, System};
use std::io::{self, Read};
use std::panic::{catch_unwind, AssertUnwindSafe};
use xt::Format;

struct Fill;
unsafe impl GlobalAlloc for Fill {
	unsafe fn alloc(&self, l: Layout) -> *mut u8 {
		let p = unsafe { System.alloc(l) };
		if !p.is_null() {
			unsafe { p.write_bytes(b'7', l.size()) };
		}
		p
	}
	unsafe fn dealloc(&self, p: *mut u8, l: Layout) {
		unsafe { System.dealloc(p, l) }
	}
	unsafe fn realloc(&self, p: *mut u8, l: Layout, new: usize) -> *mut u8 {
		let q = unsafe { System.realloc(p, l, new) };
		if !q.is_null() && new > l.size() {
			unsafe { q.add(l.size()).write_bytes(b'7', new - l.size()) };
		}
		q
	}
}
#[global_allocator]
static A: Fill = Fill;

struct Liar<'a> {
	data: &'a [u8],
	calls: usize,
	lie_on: usize,
	excess: usize,
	chunk: usize,
}
impl Read for Liar<'_> {
	fn read(&mut self, buf: &mut [u8]) -> io::Result<usize> {
		self.calls += 1;
		let n = self.data.len().min(buf.len()).min(self.chunk);
		buf[..n].copy_from_slice(&self.data[..n]);
		self.data = &self.data[n..];
		if self.calls == self.lie_on {
			Ok(buf.len() + self.excess)
		} else {
			Ok(n)
		}
	}
}

#[test]
fn over_reporting_reader_never_yields_unwritten_bytes() {
	std::panic::set_hook(Box::new(|_| {}));
	let inputs: [&[u8]; 5] = [b"k: 7", b"{\"a\":1}", b"[1,2,3]\n", b"a = 1\n", b"- x\n- y\n"];
	let mut bad = vec![];
	let mut runs = 0;
	for input in inputs {
		for from in [None, Some(Format::Yaml), Some(Format::Json), Some(Format::Toml)] {
			let mut honest = Vec::new();
			let honest_res = xt::translate_reader(input, from, Format::Json, &mut honest);
			for lie_on in 1..=5 {
				for excess in [1usize, 4, 3, 64, 1 << 30] {
					for chunk in [1usize, 3, usize::MAX] {
						runs += 1;
						let mut out = Vec::new();
						let r = catch_unwind(AssertUnwindSafe(|| {
							let rd = Liar { data: input, calls: 0, lie_on, excess, chunk };
							xt::translate_reader(rd, from, Format::Json, &mut out)
						}));
						match r {
							Err(_) | Ok(Err(_)) => {}
							Ok(Ok(())) => {
								if honest_res.is_err() || out != honest {
									bad.push(format!(
										"input {:?} from {:?}: lying on call {lie_on} by {excess} (chunk {chunk}) was swallowed: output {:?}, honest output {:?}",
										String::from_utf8_lossy(input),
										from.map(|f| f.to_string()),
										String::from_utf8_lossy(&out),
										String::from_utf8_lossy(&honest)
									));
								}
							}
						}
					}
				}
			}
		}
	}
	let _ = std::panic::take_hook();
	assert!(runs > 0);
	assert!(bad.is_empty(), "{} violations, first: {}", bad.len(), bad[0]);
}
