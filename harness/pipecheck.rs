// Family J (DESIGN.md 5.J): src/pipecheck.rs in the E2-cli overlay (std:: -> mstd::, mock libc).
#![allow(static_mut_refs)]
use super::*;
use mstd::ghost::G;

/// Inner writer whose every method returns a symbolic result kind.
struct Inner {
	kind: u8,
}
impl Inner {
	fn res<T>(&self, ok: T) -> io::Result<T> {
		match self.kind {
			0 => Ok(ok),
			1 => Err(io::Error::from(io::ErrorKind::BrokenPipe)),
			2 => Err(io::Error::from(io::ErrorKind::StorageFull)),
			_ => Err(io::Error::from(io::ErrorKind::Interrupted)),
		}
	}
}
impl Write for Inner {
	fn write(&mut self, b: &[u8]) -> io::Result<usize> {
		self.res(b.len())
	}
	fn flush(&mut self) -> io::Result<()> {
		self.res(())
	}
	fn write_all(&mut self, _b: &[u8]) -> io::Result<()> {
		self.res(())
	}
	fn write_fmt(&mut self, _a: mstd::fmt::Arguments<'_>) -> io::Result<()> {
		self.res(())
	}
	fn write_vectored(&mut self, _b: &[io::IoSlice<'_>]) -> io::Result<usize> {
		self.res(0)
	}
}

static mut EXPECT_PIPE: bool = false;
static mut TERMINATED: bool = false;

fn at_exit_pipe(code: i32) {
	unsafe {
		TERMINATED = true;
		assert!(code == 1000 + 13, "J: a broken pipe ends the process by SIGPIPE, never by exit()");
		assert!(G.sigpipe_dfl, "J: the default SIGPIPE action is installed before the signal is raised");
		assert!(EXPECT_PIPE, "J: only a broken pipe terminates the process");
		assert!(G.stderr_writes == 0, "J: nothing is written to standard error");
		kani::cover!(true, "J terminated by SIGPIPE");
	}
}

/// J1: every wrapped Write method x every result kind.
#[kani::proof]
#[kani::unwind(4)]
fn j1_pipecheck_methods() {
	let kind: u8 = kani::any();
	kani::assume(kind <= 3);
	unsafe {
		G.at_exit = Some(at_exit_pipe);
		EXPECT_PIPE = kind == 1;
	}
	let mut w = Writer::new(Inner { kind });
	let which: u8 = kani::any();
	kani::assume(which <= 5);
	let buf = [7u8; 2];
	let n: u32 = kani::any();
	let ok = match which {
		0 => w.write(&buf).is_ok(),
		1 => w.flush().is_ok(),
		2 => w.write_all(&buf).is_ok(),
		3 => w.write_fmt(format_args!("x")).is_ok(), // literal only (document separators)
		4 => w.write_fmt(format_args!("{}", n)).is_ok(),
		_ => w.write_vectored(&[io::IoSlice::new(&buf)]).is_ok(),
	};
	// the call returned: it must not have been a broken pipe, and the result is passed through
	assert!(kind != 1, "J1: a broken pipe never comes back to the caller as an error value");
	assert!(ok == (kind == 0), "J1: every other result is passed through unchanged");
	kani::cover!(which == 3 && kind == 2, "J1 write_fmt passes a full-device error through");
}

/// Inner writer that only implements write/flush, accepts short writes and fails at a symbolic call.
struct Piece {
	got: [u8; 4],
	n: usize,
	calls: usize,
	fail_call: usize,
	fail_kind: u8,
}
impl Write for Piece {
	fn write(&mut self, b: &[u8]) -> io::Result<usize> {
		let c = self.calls;
		self.calls += 1;
		if c == self.fail_call {
			return Err(io::Error::from(if self.fail_kind == 1 { io::ErrorKind::BrokenPipe } else { io::ErrorKind::StorageFull }));
		}
		if b.is_empty() {
			return Ok(0);
		}
		let k: usize = kani::any();
		kani::assume(k >= 1 && k <= b.len());
		let mut i = 0;
		while i < k {
			if self.n < 4 {
				self.got[self.n] = b[i];
			}
			self.n += 1;
			i += 1;
		}
		Ok(k)
	}
	fn flush(&mut self) -> io::Result<()> {
		Ok(())
	}
}

/// J2: write_all through the wrapper over a writer that accepts short pieces delivers every byte
/// (or fails / dies for a broken pipe) - the wrapper must not turn write_all into a single write.
#[kani::proof]
#[kani::unwind(6)]
fn j2_write_all_delivers_everything() {
	let fail_call: usize = kani::any();
	let fail_kind: u8 = kani::any();
	kani::assume(fail_kind == 1 || fail_kind == 2);
	unsafe {
		G.at_exit = Some(at_exit_pipe);
		EXPECT_PIPE = fail_kind == 1 && fail_call < 3;
	}
	let mut w = Writer::new(Piece { got: [0; 4], n: 0, calls: 0, fail_call, fail_kind });
	let data: [u8; 3] = kani::any();
	let r = w.write_all(&data);
	match r {
		Ok(()) => {
			assert!(w.0.n == 3 && w.0.got[0] == data[0] && w.0.got[1] == data[1] && w.0.got[2] == data[2], "J2: write_all delivers every byte, in order, through short writes");
			kani::cover!(w.0.calls == 3, "J2 three one-byte pieces");
		}
		Err(e) => {
			mstd::mem_forget(e);
			assert!(fail_kind != 1 && w.0.calls > fail_call, "J2: an error value comes back only for a non-pipe failure");
			kani::cover!(true, "J2 full device error returned");
		}
	}
}
