// E2-cli overlay root harness module (main.rs). The control flow of main() itself is checked
// from MIR by the E3 engine (Kani cannot get through main(), DESIGN.md section 3); this module
// only has to exist so that the overlay compiles.
