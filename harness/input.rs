// Family C (DESIGN.md 5.C): the rewindable input handle. Child module of src/input.rs.
use super::*;

const N: usize = 3;

/// Source reader: each read delivers a fresh non-deterministic 1..=min(rest, buf.len()) bytes,
/// 0 at end of data; once `fail_at` bytes were delivered every read fails (usize::MAX = never).
pub(super) struct Src<'a> {
	pub data: &'a [u8],
	pub pos: usize,
	pub fail_at: usize,
	pub reads: u32,
}
impl<'a> Src<'a> {
	pub fn new(data: &'a [u8]) -> Self {
		Src { data, pos: 0, fail_at: usize::MAX, reads: 0 }
	}
}
impl<'a> Read for Src<'a> {
	fn read(&mut self, buf: &mut [u8]) -> io::Result<usize> {
		self.reads += 1;
		if self.pos >= self.fail_at {
			return Err(io::Error::from(io::ErrorKind::Other));
		}
		let end = if self.fail_at < self.data.len() { self.fail_at } else { self.data.len() };
		let rest = end - self.pos;
		if rest == 0 || buf.is_empty() {
			return Ok(0);
		}
		let max = if rest < buf.len() { rest } else { buf.len() };
		let k: usize = kani::any();
		kani::assume(k >= 1 && k <= max);
		buf[..k].copy_from_slice(&self.data[self.pos..self.pos + k]);
		self.pos += k;
		Ok(k)
	}
}

/// Documented contract of `Read::read_to_end` used in place of std's implementation
/// (std's adaptive-buffer code runs CBMC out of memory, DESIGN.md section 3): read until
/// Ok(0), append everything to the vector; the first error is returned and the bytes read
/// so far stay in the vector.
fn read_to_end_contract<R: Read + ?Sized>(r: &mut R, buf: &mut Vec<u8>, _hint: Option<usize>) -> io::Result<usize> {
	let mut total = 0usize;
	loop {
		let want: usize = kani::any();
		kani::assume(want >= 1 && want <= 4);
		let mut tmp = [0u8; 4];
		match r.read(&mut tmp[..want]) {
			Ok(0) => return Ok(total),
			Ok(n) => {
				buf.extend_from_slice(&tmp[..n]);
				total += n;
			}
			Err(e) => return Err(e),
		}
	}
}

fn is_prefix(got: &[u8], data: &[u8]) -> bool {
	if got.len() > data.len() {
		return false;
	}
	let mut i = 0;
	let mut ok = true;
	while i < N {
		if i < got.len() && got[i] != data[i] {
			ok = false;
		}
		i += 1;
	}
	ok
}

/// The representation invariant of CaptureReader over Src.
fn invariant(r: &CaptureReader<Src<'_>>, data: &[u8]) -> bool {
	let cap = r.captured();
	is_prefix(cap, data)
		&& cap.len() == r.source.pos
		&& (r.prefix.position() as usize) <= cap.len()
		&& (!r.is_source_eof() || cap.len() == data.len())
}

struct Pre<'a> {
	r: CaptureReader<Src<'a>>,
	p: usize,
	c: usize,
	eof: bool,
}

/// An arbitrary state satisfying the invariant, constructed directly.
fn any_state<'a>(data: &'a [u8], fail_at: usize) -> Pre<'a> {
	let len = data.len();
	let c: usize = kani::any(); // bytes already captured
	let p: usize = kani::any(); // replay position
	kani::assume(p <= c && c <= len);
	kani::assume(c <= fail_at);
	let eof: bool = kani::any();
	kani::assume(!eof || (c == len && fail_at > len));
	// capacity is concrete so that appending does not reallocate on the solver's side
	let mut v: Vec<u8> = Vec::with_capacity(8);
	v.extend_from_slice(&data[..c]);
	let mut cursor = Cursor::new(v);
	cursor.set_position(p as u64);
	let r = CaptureReader { prefix: cursor, source: Src { data, pos: c, fail_at, reads: 0 }, source_eof: eof };
	Pre { r, p, c, eof }
}

// ---------------------------------------------------------------------------------------
// C2: one read() from an arbitrary valid state
// ---------------------------------------------------------------------------------------

fn c2_body(with_fault: bool) {
	let buf: [u8; N] = kani::any();
	let len: usize = kani::any();
	kani::assume(len <= N);
	let data = &buf[..len];
	let fail_at: usize = if with_fault { kani::any() } else { usize::MAX };
	if with_fault {
		kani::assume(fail_at <= len);
	}
	let Pre { mut r, p, c, eof } = any_state(data, fail_at);
	let want: usize = kani::any();
	kani::assume(want <= 3);
	let mut tmp = [0u8; 3];
	let res = r.read(&mut tmp[..want]);
	match res {
		Ok(got) => {
			assert!(got <= want, "C2: read returns at most the buffer size");
			let mut j = 0;
			while j < 3 {
				if j < got {
					assert!(tmp[j] == data[p + j], "C2: bytes are the next bytes of the original stream");
				}
				j += 1;
			}
			assert!(r.prefix.position() as usize == p + got, "C2: position advances by the bytes returned");
			if p + want <= c && want > 0 {
				assert!(got == want && r.source.reads == 0, "C2: replay is served from the capture without touching the source");
			}
			// no spurious end of input
			let end = if fail_at < len { fail_at } else { len };
			assert!(got >= 1 || want == 0 || p == end, "C2: Ok(0) only at the end of the stream");
			if r.source.reads == 0 {
				assert!(r.is_source_eof() == eof, "C2: EOF flag only changes when the source was consulted");
			}
			kani::cover!(p < c && r.source.reads == 1 && got == want && want == 3, "C2 read spans capture and source");
			kani::cover!(r.is_source_eof() && !eof, "C2 read observes end of source");
		}
		Err(e) => {
			core::mem::forget(e);
			assert!(with_fault && r.source.pos == fail_at, "C2: Err only when the source failed");
			kani::cover!(true, "C2 source fault surfaces as Err");
		}
	}
	assert!(invariant(&r, data), "C2: invariant re-established (captured = prefix of the data actually taken from the source; eof => complete)");
	core::mem::forget(r);
}

#[kani::proof]
#[kani::unwind(7)]
fn c2_capture_read_step() {
	c2_body(false);
}

#[kani::proof]
#[kani::unwind(7)]
fn c4_capture_read_step_fault() {
	c2_body(true);
}

// ---------------------------------------------------------------------------------------
// C2': capture_up_to_size / capture_to_end from an arbitrary valid state
// ---------------------------------------------------------------------------------------

fn c2p_body(op_to_end: bool, with_fault: bool) {
	let buf: [u8; N] = kani::any();
	let len: usize = kani::any();
	kani::assume(len <= N);
	let data = &buf[..len];
	let fail_at: usize = if with_fault { kani::any() } else { usize::MAX };
	if with_fault {
		kani::assume(fail_at <= len);
	}
	let Pre { mut r, p, c, eof } = any_state(data, fail_at);
	if op_to_end {
		let res = r.capture_to_end();
		match res {
			Ok(()) => {
				assert!(r.captured().len() == len && r.is_source_eof(), "C2': capture_to_end captures everything and marks EOF");
				assert!(!eof || r.source.reads == 0, "C2': a fully captured source is not read again");
				kani::cover!(c < len, "C2' capture_to_end pulls the rest");
			}
			Err(e) => {
				core::mem::forget(e);
				assert!(with_fault && !r.is_source_eof(), "C2': a failed capture does not claim EOF");
				kani::cover!(true, "C2' capture_to_end propagates a fault");
			}
		}
	} else {
		let size: usize = kani::any();
		kani::assume(size <= N + 2);
		let res = r.capture_up_to_size(size);
		match res {
			Ok(()) => {
				let target = if size < len { size } else { len };
				assert!(r.captured().len() >= target, "C2': prefix request is met unless the source ends first");
				if size <= c {
					assert!(r.source.reads == 0, "C2': nothing is read when enough is already captured");
				}
				assert!(!with_fault || r.source.pos <= fail_at);
				kani::cover!(c < size && size < len, "C2' prefix grows to the requested size");
				kani::cover!(size > len && r.is_source_eof() && !eof, "C2' prefix request hits end of source");
			}
			Err(e) => {
				core::mem::forget(e);
				assert!(with_fault, "C2': Err only when the source failed");
				kani::cover!(true, "C2' capture_up_to_size propagates a fault");
			}
		}
	}
	assert!(r.prefix.position() as usize == p, "C2': capturing does not move the replay position");
	assert!(invariant(&r, data), "C2': invariant re-established");
	core::mem::forget(r);
}

#[kani::proof]
#[kani::stub(std::io::default_read_to_end, read_to_end_contract)]
#[kani::unwind(7)]
fn c2p_capture_up_to_size() {
	c2p_body(false, false);
}

#[kani::proof]
#[kani::stub(std::io::default_read_to_end, read_to_end_contract)]
#[kani::unwind(7)]
fn c2p_capture_to_end() {
	c2p_body(true, false);
}

#[kani::proof]
#[kani::stub(std::io::default_read_to_end, read_to_end_contract)]
#[kani::unwind(7)]
fn c4_capture_up_to_size_fault() {
	c2p_body(false, true);
}

#[kani::proof]
#[kani::stub(std::io::default_read_to_end, read_to_end_contract)]
#[kani::unwind(7)]
fn c4_capture_to_end_fault() {
	c2p_body(true, true);
}

/// A source that violates the Read contract: it claims more bytes than the buffer holds.
struct Overclaim {
	excess: usize,
}
impl Read for Overclaim {
	fn read(&mut self, buf: &mut [u8]) -> io::Result<usize> {
		let mut i = 0;
		while i < buf.len() {
			buf[i] = 0x37;
			i += 1;
		}
		Ok(buf.len() + self.excess)
	}
}

/// C2'o: a prefix request against an over-reporting source ends in a clean panic - it never
/// returns normally with bytes the source did not write (kani::should_panic: a panic and no
/// memory-safety failure).
#[kani::proof]
#[kani::should_panic]
#[kani::stub(std::io::default_read_to_end, read_to_end_contract)]
#[kani::unwind(7)]
fn c2p_overclaim_panics() {
	let excess: usize = kani::any();
	kani::assume(excess >= 1 && excess <= 4);
	let size: usize = kani::any();
	kani::assume(size >= 1 && size <= 3);
	let mut r = CaptureReader::new(Overclaim { excess });
	let res = r.capture_up_to_size(size);
	// only reachable if the over-report was swallowed; nothing is asserted here, so reaching the
	// end makes should_panic fail ("no panic"): the captured bytes are not touched because a
	// length beyond the allocation is exactly what a swallowed over-report produces
	core::mem::forget(res);
	core::mem::forget(r);
}

// ---------------------------------------------------------------------------------------
// C1: programs of rewinds and partial reads on GuardedCaptureReader<Src> (thorough)
// ---------------------------------------------------------------------------------------

#[kani::proof]
#[kani::unwind(6)]
fn c1_capture_programs() {
	let buf: [u8; N] = kani::any();
	let len: usize = kani::any();
	kani::assume(len <= N);
	let data = &buf[..len];
	let mut g = GuardedCaptureReader::new(Src::new(data));
	let mut round = 0;
	while round < 2 {
		let r = g.rewind_and_borrow_mut();
		assert!(r.prefix.position() == 0, "C1: every borrow starts at the beginning");
		assert!(invariant(r, data));
		let mut seen = [0u8; N];
		let mut n = 0;
		let mut step = 0;
		while step < 2 {
			let want: usize = kani::any();
			kani::assume(want >= 1 && want <= 2);
			let mut tmp = [0u8; 2];
			let got = match r.read(&mut tmp[..want]) {
				Ok(g) => g,
				Err(_) => {
					assert!(false, "C1: no error without a source fault");
					0
				}
			};
			assert!(got <= want);
			let mut j = 0;
			while j < got {
				assert!(n < N, "C1: never more bytes than the data");
				seen[n] = tmp[j];
				n += 1;
				j += 1;
			}
			step += 1;
		}
		assert!(is_prefix(&seen[..n], data), "C1: each borrow re-reads the stream from byte 0");
		assert!(invariant(r, data));
		round += 1;
	}
	let r = g.rewind_and_take();
	assert!(invariant(&r, data));
	let eof = r.is_source_eof();
	let (cursor, src) = r.into_inner();
	assert!(cursor.position() == 0, "C1: ownership is handed over rewound");
	assert!(cursor.get_ref().len() == src.pos, "C1: captured ++ rest of source = data");
	if eof {
		assert!(src.pos == len);
	}
	kani::cover!(eof && len == 3, "C1 whole source captured by reads");
	kani::cover!(!eof && src.pos == 2 && len == 3, "C1 ownership taken mid-stream");
	core::mem::forget(cursor);
}

// ---------------------------------------------------------------------------------------
// C3f: FusedReader
// ---------------------------------------------------------------------------------------

#[kani::proof]
#[kani::unwind(6)]
fn c3f_fused_reader() {
	let buf: [u8; N] = kani::any();
	let len: usize = kani::any();
	kani::assume(len <= N);
	let data = &buf[..len];
	let mut f = FusedReader::new(Src::new(data));
	let mut seen = 0usize;
	let mut step = 0;
	let mut dropped_at: usize = usize::MAX;
	while step < 4 {
		let want: usize = kani::any();
		kani::assume(want <= 2);
		let mut tmp = [0u8; 2];
		let was_some = f.0.is_some();
		let got = match f.read(&mut tmp[..want]) {
			Ok(g) => g,
			Err(_) => {
				assert!(false);
				0
			}
		};
		let mut j = 0;
		while j < got {
			assert!(tmp[j] == data[seen + j], "C3f: bytes of the inner reader, in order");
			j += 1;
		}
		seen += got;
		if !was_some {
			assert!(got == 0, "C3f: Ok(0) forever after the inner reader was dropped");
		}
		if was_some && f.0.is_none() {
			assert!(got == 0 && want > 0 && seen == len, "C3f: dropped exactly at the first real EOF");
			dropped_at = step;
		}
		if want == 0 {
			assert!(f.0.is_some() == was_some, "C3f: a zero-length read does not drop the reader");
		}
		step += 1;
	}
	kani::cover!(dropped_at == 1, "C3f inner reader dropped at EOF");
	core::mem::forget(f);
}

/// C3f, fault variant: the source starts failing at a symbolic offset (and keeps failing). The fused reader passes
/// the error on and is NOT fused by it: a failing source never turns into a clean end of input on a later read.
#[kani::proof]
#[kani::unwind(6)]
fn c3f_fused_reader_fault() {
	let buf: [u8; N] = kani::any();
	let len: usize = kani::any();
	kani::assume(len <= N);
	let data = &buf[..len];
	let fail_at: usize = kani::any();
	kani::assume(fail_at <= len);
	let mut src = Src::new(data);
	src.fail_at = fail_at;
	let mut f = FusedReader::new(src);
	let mut seen = 0usize;
	let mut failed = false;
	let mut step = 0;
	while step < 4 {
		let want: usize = kani::any();
		kani::assume(want >= 1 && want <= 2);
		let mut tmp = [0u8; 2];
		match f.read(&mut tmp[..want]) {
			Ok(got) => {
				assert!(!failed, "C3f: after the source failed, no later read reports success or a clean end of input");
				assert!(got > 0 && seen + got <= fail_at, "C3f: only bytes the source delivered before failing, and no clean end of input in front of the fault");
				let mut j = 0;
				while j < got {
					assert!(tmp[j] == data[seen + j], "C3f: bytes of the inner reader, in order");
					j += 1;
				}
				seen += got;
			}
			Err(e) => {
				core::mem::forget(e);
				assert!(seen == fail_at, "C3f: an error only once the source failed");
				failed = true;
			}
		}
		step += 1;
	}
	kani::cover!(failed && seen == 2, "C3f fault after two bytes");
	core::mem::forget(f);
}

// ---------------------------------------------------------------------------------------
// C3: the Handle layer over Box<dyn Read> (needs -Z restrict-vtable)
// ---------------------------------------------------------------------------------------

fn read_some(rd: &mut dyn Read, data: &[u8], steps: usize) -> usize {
	let mut n = 0;
	let mut step = 0;
	while step < steps {
		let want: usize = kani::any();
		kani::assume(want >= 1 && want <= 2);
		let mut tmp = [0u8; 2];
		let got = match rd.read(&mut tmp[..want]) {
			Ok(g) => g,
			Err(_) => {
				assert!(false);
				0
			}
		};
		let mut j = 0;
		while j < got {
			assert!(n < data.len() && tmp[j] == data[n], "C3: the stream is replayed from byte 0, unaltered");
			n += 1;
			j += 1;
		}
		step += 1;
	}
	n
}

#[kani::proof]
#[kani::stub(std::io::default_read_to_end, read_to_end_contract)]
#[kani::unwind(6)]
fn c3_handle_programs() {
	let buf: [u8; N] = kani::any();
	let len: usize = kani::any();
	kani::assume(len <= N);
	let data = &buf[..len];
	let mut h = Handle::from_reader(Src::new(data));
	let borrows: usize = kani::any();
	kani::assume(borrows <= 2);
	let mut i = 0;
	while i < borrows {
		let mut r = h.borrow_mut();
		if kani::any() {
			let hint: usize = kani::any();
			kani::assume(hint <= N + 1);
			let is_slice = matches!(r, Ref::Slice(_));
			match r.prefix(hint) {
				Ok(p) => {
					assert!(is_prefix(p, data), "C3: prefix is a prefix of the data");
					if is_slice {
						assert!(p.len() == len, "C3: a slice reference is the whole input");
					} else {
						assert!(p.len() >= if hint < len { hint } else { len });
					}
				}
				Err(_) => assert!(false),
			}
		} else {
			match r {
				Ref::Slice(b) => assert!(b.len() == len && is_prefix(b, data), "C3: Ref::Slice only for a fully captured source"),
				Ref::Reader(rd) => {
					read_some(rd, data, 2);
				}
			}
		}
		i += 1;
	}
	if kani::any() {
		match Input::from(h) {
			Input::Slice(b) => {
				assert!(b.len() == len && is_prefix(&b, data), "C3: owned slice is the whole input");
				kani::cover!(len == 3, "C3 input became a slice");
				core::mem::forget(b);
			}
			Input::Reader(mut r) => {
				let n = read_some(&mut *r, data, N + 1);
				let mut tmp = [0u8; 1];
				let end = matches!(r.read(&mut tmp), Ok(0));
				assert!(n == len && end, "C3: the owned reader yields the complete stream");
				kani::cover!(len == 3 && borrows >= 1, "C3 chained reader after look-ahead");
				core::mem::forget(r);
			}
		}
	} else {
		match Cow::<[u8]>::try_from(h) {
			Ok(b) => {
				assert!(b.len() == len && is_prefix(&b, data), "C3: Cow is the whole input");
				core::mem::forget(b);
			}
			Err(_) => assert!(false),
		}
	}
}
