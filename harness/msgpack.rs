// Family A (DESIGN.md 5.A): the MessagePack size calculator, checked modularly.
// Injected as `#[cfg(kani)] mod verif_kani;` at the end of src/msgpack.rs, so every private
// item of the real module is visible through `super::*`.
use super::*;

// ---------------------------------------------------------------------------------------
// Independent reference, written from the MessagePack specification (not from rmp::Marker).
// ---------------------------------------------------------------------------------------

include!("msgpack_ref.rs");

fn any_err() -> ReadSizeError {
	match kani::any::<u8>() % 3 {
		0 => ReadSizeError::Truncated,
		1 => ReadSizeError::InvalidMarker,
		_ => ReadSizeError::DepthLimitExceeded,
	}
}

fn err_code(e: &ReadSizeError) -> u8 {
	match e {
		ReadSizeError::Truncated => 0,
		ReadSizeError::InvalidMarker => 1,
		ReadSizeError::DepthLimitExceeded => 2,
	}
}

// ---------------------------------------------------------------------------------------
// A1: body of next_value_size against the contracts of total_seq_size / total_map_size
// ---------------------------------------------------------------------------------------

struct ChildLog {
	calls: u32,
	is_map: bool,
	ptr: *const u8,
	len: usize,
	count: u32,
	depth: usize,
	ret_ok: bool,
	ret: usize,
	ret_err: u8,
}

static mut CHILD: ChildLog = ChildLog {
	calls: 0,
	is_map: false,
	ptr: core::ptr::null(),
	len: 0,
	count: 0,
	depth: 0,
	ret_ok: false,
	ret: 0,
	ret_err: 0,
};

fn child_contract<N: Into<u32>>(is_map: bool, input: &[u8], count: N, d: usize) -> Result<usize, ReadSizeError> {
	unsafe {
		CHILD.calls += 1;
		CHILD.is_map = is_map;
		CHILD.ptr = input.as_ptr();
		CHILD.len = input.len();
		CHILD.count = count.into();
		CHILD.depth = d;
		if kani::any() {
			let t: usize = kani::any();
			kani::assume(t <= input.len());
			CHILD.ret_ok = true;
			CHILD.ret = t;
			Ok(t)
		} else {
			let e = any_err();
			CHILD.ret_ok = false;
			CHILD.ret_err = err_code(&e);
			Err(e)
		}
	}
}

fn seq_contract_a1<N: Into<u32>>(input: &[u8], count: N, d: usize) -> Result<usize, ReadSizeError> {
	child_contract(false, input, count, d)
}

fn map_contract_a1<N: Into<u32>>(input: &[u8], count: N, d: usize) -> Result<usize, ReadSizeError> {
	child_contract(true, input, count, d)
}

fn a1_body(buf: &[u8], len: usize, d: usize) {
	let input = &buf[..len];
	let r = next_value_size(input, d);
	let (calls, c_is_map, c_ptr, c_len, c_count, c_depth, c_ok, c_ret, c_err) = unsafe {
		(CHILD.calls, CHILD.is_map, CHILD.ptr, CHILD.len, CHILD.count, CHILD.depth, CHILD.ret_ok, CHILD.ret, CHILD.ret_err)
	};
	// the documented guarantee: the input can be sliced to the returned size
	if let Ok(n) = &r {
		assert!(*n <= len, "A1: returned size can be sliced");
		assert!(len == 0 || *n >= 1, "A1: a value occupies at least one byte");
	}
	if d == 0 {
		assert!(matches!(r, Err(ReadSizeError::DepthLimitExceeded)), "A1: depth 0 is rejected");
		assert!(calls == 0, "A1: depth 0 does not recurse");
		return;
	}
	if len == 0 {
		assert!(matches!(r, Ok(0)), "A1: empty input has size 0");
		assert!(calls == 0);
		return;
	}
	match spec_shape(input) {
		Shape::Reserved => {
			assert!(matches!(r, Err(ReadSizeError::InvalidMarker)), "A1: reserved marker");
			assert!(calls == 0);
		}
		Shape::CutHeader => {
			assert!(matches!(r, Err(ReadSizeError::Truncated)), "A1: cut header is Truncated");
			assert!(calls == 0);
		}
		Shape::Leaf(sz) => {
			assert!(calls == 0, "A1: scalars do not recurse");
			if sz <= len {
				assert!(matches!(r, Ok(n) if n == sz), "A1: scalar size equals the spec table");
				kani::cover!(sz >= 10, "A1 leaf with payload");
			} else {
				assert!(matches!(r, Err(ReadSizeError::Truncated)), "A1: declared size exceeds input");
				kani::cover!(true, "A1 truncated leaf");
			}
		}
		Shape::Array { hdr, count } | Shape::Map { hdr, pairs: count } => {
			let is_map = matches!(spec_shape(input), Shape::Map { .. });
			assert!(calls == 1, "A1: a collection header makes exactly one child call");
			assert!(c_is_map == is_map, "A1: arrays use the seq sizer, maps the map sizer");
			assert!(c_ptr == input[hdr..].as_ptr() && c_len == len - hdr, "A1: child gets exactly the bytes after the header");
			assert!(c_count == count, "A1: child gets the declared element count");
			assert!(c_depth == d, "A1: child gets the same depth limit");
			if c_ok {
				assert!(matches!(r, Ok(n) if n == hdr + c_ret), "A1: size = header + children");
				kani::cover!(c_ret >= 2 && is_map, "A1 map with children");
				kani::cover!(c_ret >= 2 && !is_map && hdr == 5, "A1 array32 with children");
			} else {
				assert!(matches!(&r, Err(e) if err_code(e) == c_err), "A1: child error is propagated unchanged");
				kani::cover!(c_err == 2, "A1 depth error from child");
			}
		}
	}
}

#[kani::proof]
#[kani::stub(total_seq_size, seq_contract_a1)]
#[kani::stub(total_map_size, map_contract_a1)]
#[kani::unwind(6)]
fn a1_nvs_step() {
	let buf: [u8; 16] = kani::any();
	let len: usize = kani::any();
	kani::assume(len <= 16);
	let d: usize = kani::any();
	a1_body(&buf, len, d);
}

/// thorough: 24-byte window (fixext16 = 18 bytes fits entirely)
#[kani::proof]
#[kani::stub(total_seq_size, seq_contract_a1)]
#[kani::stub(total_map_size, map_contract_a1)]
#[kani::unwind(6)]
fn a1_nvs_step_24() {
	let buf: [u8; 24] = kani::any();
	let len: usize = kani::any();
	kani::assume(len <= 24);
	let d: usize = kani::any();
	a1_body(&buf, len, d);
}

// ---------------------------------------------------------------------------------------
// A2: total_seq_size against the contract of next_value_size
// ---------------------------------------------------------------------------------------

struct SeqLog {
	base: *const u8,
	total_len: usize,
	expect_depth: usize,
	off: usize,
	calls: u32,
	bad: bool,
	failed: bool,
	fail_err: u8,
}

static mut SEQ: SeqLog = SeqLog {
	base: core::ptr::null(),
	total_len: 0,
	expect_depth: 0,
	off: 0,
	calls: 0,
	bad: false,
	failed: false,
	fail_err: 0,
};

fn nvs_contract_a2(input: &[u8], d: usize) -> Result<usize, ReadSizeError> {
	unsafe {
		// online monitor: call k sees exactly input[sum of earlier sizes ..] and depth - 1
		if SEQ.failed
			|| input.as_ptr() != SEQ.base.wrapping_add(SEQ.off)
			|| input.len() != SEQ.total_len - SEQ.off
			|| d != SEQ.expect_depth
			|| input.is_empty()
		{
			SEQ.bad = true;
		}
		SEQ.calls += 1;
		if kani::any() {
			let n: usize = kani::any();
			kani::assume(n >= 1 && n <= input.len());
			SEQ.off += n;
			Ok(n)
		} else {
			let e = any_err();
			SEQ.failed = true;
			SEQ.fail_err = err_code(&e);
			Err(e)
		}
	}
}

fn a2_body(buf: &[u8], len: usize) {
	let d: usize = kani::any();
	kani::assume(d >= 1); // established by A1: the child is only reached with the caller's d >= 1
	let count: u32 = kani::any();
	let input = &buf[..len];
	unsafe {
		SEQ.base = input.as_ptr();
		SEQ.total_len = len;
		SEQ.expect_depth = d - 1;
	}
	let r = total_seq_size(input, count, d);
	let (off, calls, bad, failed, fail_err) = unsafe { (SEQ.off, SEQ.calls, SEQ.bad, SEQ.failed, SEQ.fail_err) };
	assert!(!bad, "A2: element k is sized on exactly the bytes after elements 0..k, one level deeper");
	match r {
		Ok(n) => {
			assert!(!failed, "A2: an element error is never swallowed");
			assert!(n == off && n <= len, "A2: total = sum of element sizes");
			assert!(calls == count, "A2: exactly `count` elements are sized");
			kani::cover!(count == 3 && n == len, "A2 three elements fill the slice");
		}
		Err(e) => {
			if failed {
				assert!(err_code(&e) == fail_err, "A2: element error is propagated unchanged");
			} else {
				assert!(matches!(e, ReadSizeError::Truncated), "A2: running out of bytes is Truncated");
				assert!(off == len && calls < count, "A2: Truncated only when the slice is exhausted early");
				kani::cover!(count == u32::MAX, "A2 huge declared count is rejected without looping");
			}
		}
	}
}

#[kani::proof]
#[kani::stub(next_value_size, nvs_contract_a2)]
#[kani::unwind(11)]
fn a2_seq_step() {
	let buf: [u8; 8] = kani::any();
	let len: usize = kani::any();
	kani::assume(len <= 8);
	a2_body(&buf, len);
}

#[kani::proof]
#[kani::stub(next_value_size, nvs_contract_a2)]
#[kani::unwind(19)]
fn a2_seq_step_16() {
	let buf: [u8; 16] = kani::any();
	let len: usize = kani::any();
	kani::assume(len <= 16);
	a2_body(&buf, len);
}

// ---------------------------------------------------------------------------------------
// A3: total_map_size against the contract of next_value_size
// ---------------------------------------------------------------------------------------

/// A3: a map of `pairs` entries is 2 * pairs values laid end to end, keys and values alike one level deeper than the
/// map itself. Stated against the contract of next_value_size only (the same online monitor as A2), so it does not
/// care HOW the implementation walks the entries - two runs of `pairs` values, entry by entry, or otherwise.
#[kani::proof]
#[kani::stub(next_value_size, nvs_contract_a2)]
#[kani::unwind(11)]
fn a3_map_step() {
	let buf: [u8; 8] = kani::any();
	let len: usize = kani::any();
	kani::assume(len <= 8);
	let d: usize = kani::any();
	kani::assume(d >= 1); // established by A1: the children are only reached with the caller's d >= 1
	let pairs: u32 = kani::any();
	let input = &buf[..len];
	unsafe {
		SEQ.base = input.as_ptr();
		SEQ.total_len = len;
		SEQ.expect_depth = d - 1;
	}
	let r = total_map_size(input, pairs, d);
	let (off, calls, bad, failed, fail_err) = unsafe { (SEQ.off, SEQ.calls, SEQ.bad, SEQ.failed, SEQ.fail_err) };
	assert!(!bad, "A3: key or value k is sized on exactly the bytes after the earlier keys and values, one level deeper than the map");
	let wanted = 2 * (pairs as u64);
	match r {
		Ok(n) => {
			assert!(!failed, "A3: an entry's error is never swallowed");
			assert!(n == off && n <= len, "A3: total = sum of the sizes of all keys and values");
			assert!(calls as u64 == wanted, "A3: exactly 2 * pairs values are sized");
			kani::cover!(pairs == 2 && n == len, "A3 two entries fill the slice");
		}
		Err(e) => {
			if failed {
				assert!(err_code(&e) == fail_err, "A3: an entry's error is propagated unchanged");
			} else {
				assert!(matches!(e, ReadSizeError::Truncated), "A3: running out of bytes is Truncated");
				assert!(off == len && (calls as u64) < wanted, "A3: Truncated only when the slice is exhausted early");
				kani::cover!(pairs == u32::MAX, "A3 huge declared count is rejected without looping");
			}
		}
	}
}

// ---------------------------------------------------------------------------------------
// A4: the whole recursion, no stubs, at depth limit 1 and 2 (ties the contracts together)
// ---------------------------------------------------------------------------------------

fn a4_body(buf: &[u8], len: usize, depth: usize) {
	let input = &buf[..len];
	let got = next_value_size(input, depth);
	let want = ref_size(input, depth);
	match (got, want) {
		(Ok(a), Ok(b)) => {
			assert!(a == b && a <= len, "A4: size equals the reference");
			kani::cover!(a >= 3 && matches!(spec_shape(input), Shape::Array { .. } | Shape::Map { .. }), "A4 collection with contents sized");
			kani::cover!(a == 10, "A4 ten byte scalar");
		}
		(Err(e), Err(c)) => {
			assert!(err_code(&e) == c, "A4: error class equals the reference");
			kani::cover!(c == 2, "A4 depth limit exceeded");
			kani::cover!(c == 0, "A4 truncated");
		}
		_ => assert!(false, "A4: verdict differs from the reference"),
	}
}

#[kani::proof]
#[kani::unwind(12)]
fn a4_nvs_full_d1() {
	let buf: [u8; 10] = kani::any();
	let len: usize = kani::any();
	kani::assume(len <= 10);
	a4_body(&buf, len, 1);
}

#[kani::proof]
#[kani::unwind(6)]
fn a4_nvs_full_d2() {
	let buf: [u8; 4] = kani::any();
	let len: usize = kani::any();
	kani::assume(len <= 4);
	// fixarray / fixmap / scalars only keep the collection loops short
	kani::assume(len == 0 || buf[0] < 0xdc || buf[0] > 0xdf);
	a4_body(&buf, len, 2);
}

#[kani::proof]
fn a0_depth_limit_constant() {
	// rmp-serde rejects the 1024th nested collection; xt's slice splitter must use the same number
	assert!(DEPTH_LIMIT == 1024, "A0: DEPTH_LIMIT is 1024");
}
