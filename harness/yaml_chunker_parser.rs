// Family H (DESIGN.md 5.H): the libyaml read callback. Child module of src/yaml/chunker/parser.rs.
use super::*;

/// A reader that fills whatever buffer it is given and claims ANY length (or fails).
struct Liar {
	claim: [usize; 2],
	fail: [bool; 2],
	call: usize,
	salt: u8,
	max_buf_seen: usize,
}
impl Read for Liar {
	fn read(&mut self, buf: &mut [u8]) -> io::Result<usize> {
		let k = if self.call == 0 { 0 } else { 1 };
		self.call += 1;
		if buf.len() > self.max_buf_seen {
			self.max_buf_seen = buf.len();
		}
		let mut i = 0;
		while i < buf.len() {
			buf[i] = self.salt ^ (i as u8) ^ ((k as u8) << 7);
			i += 1;
		}
		if self.fail[k] {
			return Err(io::Error::from(io::ErrorKind::Other));
		}
		Ok(self.claim[k])
	}
}

const CANARY: u8 = 0xA5;

/// H1: two consecutive calls of the real read_handler with arbitrary (also shrinking) buffer
/// sizes and a reader claiming any length: nothing is ever written beyond `buffer_size`
/// (canary bytes + Kani's pointer checks), *size_read <= buffer_size, exactly the reader's bytes
/// are copied, failure stashes an error and success clears it.
#[kani::proof]
#[kani::unwind(10)]
fn h1_read_handler_claims() {
	let salt: u8 = kani::any();
	let mut st = ReadState {
		reader: Liar { claim: kani::any(), fail: kani::any(), call: 0, salt, max_buf_seen: 0 },
		bouncer: vec![],
		error: None,
	};
	let mut round = 0;
	while round < 2 {
		let mut dst = [CANARY; 8];
		let size: u64 = kani::any();
		kani::assume(size <= 8);
		let mut got: u64 = u64::MAX;
		// SAFETY: the arguments are valid pointers, as libyaml passes them
		let rc = unsafe {
			Parser::<Liar>::read_handler((&mut st as *mut ReadState<Liar>).cast::<c_void>(), dst.as_mut_ptr(), size, &mut got)
		};
		assert!(st.reader.max_buf_seen <= 8, "H1: the reader is never offered more than libyaml asked for");
		let claim = st.reader.claim[round];
		if rc == 1 {
			assert!(!st.reader.fail[round] && claim as u64 <= size, "H1: success only for an honest length");
			assert!(got == claim as u64 && got <= size, "H1: *size_read is the reader's count and fits the buffer");
			assert!(st.error.is_none(), "H1: success clears the stashed error");
			kani::cover!(round == 1 && got == 3, "H1 second call copies three bytes");
		} else {
			assert!(rc == 0);
			assert!(st.reader.fail[round] || claim as u64 > size, "H1: failure only for a reader error or an over-claim");
			assert!(st.error.is_some(), "H1: failure stashes the error for next_event");
			kani::cover!(!st.reader.fail[round] && claim == usize::MAX, "H1 absurd claim rejected");
		}
		let mut j = 0;
		while j < 8 {
			if rc == 1 && (j as u64) < got {
				assert!(dst[j] == salt ^ (j as u8) ^ ((round as u8) << 7), "H1: the reader's bytes are copied");
			} else if (j as u64) >= size {
				assert!(dst[j] == CANARY, "H1: nothing is written beyond buffer_size");
			}
			j += 1;
		}
		round += 1;
	}
	core::mem::forget(st);
}

/// H1n: null arguments are refused without being dereferenced.
#[kani::proof]
#[kani::unwind(4)]
fn h1_read_handler_null_args() {
	let mut st = ReadState { reader: Liar { claim: [0; 2], fail: [false; 2], call: 0, salt: 0, max_buf_seen: 0 }, bouncer: vec![], error: None };
	let mut dst = [CANARY; 4];
	let mut got: u64 = 7;
	let which: u8 = kani::any();
	kani::assume(which < 3);
	let sp = if which == 0 { ptr::null_mut() } else { (&mut st as *mut ReadState<Liar>).cast::<c_void>() };
	let bp = if which == 1 { ptr::null_mut() } else { dst.as_mut_ptr() };
	let gp = if which == 2 { ptr::null_mut() } else { &mut got as *mut u64 };
	// SAFETY: read_handler must tolerate null arguments
	let rc = unsafe { Parser::<Liar>::read_handler(sp, bp, 4, gp) };
	assert!(rc == 0 && st.reader.call == 0 && got == 7 && dst[0] == CANARY, "H1: null arguments fail without side effects");
	kani::cover!(which == 2, "H1 null size_read");
	core::mem::forget(st);
}
