// Family B (DESIGN.md 5.B): the YAML re-encoder. Injected as a child module of
// src/yaml/encoding.rs; all private items are visible through `super::*`.
use super::*;

/// BufRead over a byte slice that hands out a fresh non-deterministic window (>= 1 byte)
/// each time the previous one is consumed, and that fails forever once `fail_at` bytes
/// have been delivered (usize::MAX = never fails).
pub(super) struct Chunky<'a> {
	pub data: &'a [u8],
	pub pos: usize,
	win: usize,
	pub fail_at: usize,
	pub failed: bool,
}
impl<'a> Chunky<'a> {
	pub fn new(data: &'a [u8]) -> Self {
		Chunky { data, pos: 0, win: 0, fail_at: usize::MAX, failed: false }
	}
	pub fn failing(data: &'a [u8], fail_at: usize) -> Self {
		Chunky { data, pos: 0, win: 0, fail_at, failed: false }
	}
}
impl<'a> Read for Chunky<'a> {
	fn read(&mut self, buf: &mut [u8]) -> io::Result<usize> {
		let avail = self.fill_buf()?;
		let n = min(avail.len(), buf.len());
		buf[..n].copy_from_slice(&avail[..n]);
		self.consume(n);
		Ok(n)
	}
}
impl<'a> BufRead for Chunky<'a> {
	fn fill_buf(&mut self) -> io::Result<&[u8]> {
		if self.pos >= self.fail_at {
			self.failed = true;
			return Err(io::Error::from(io::ErrorKind::Other));
		}
		let end = min(self.data.len(), self.fail_at);
		let rest = end - self.pos;
		if rest == 0 {
			return Ok(&[]);
		}
		if self.win == 0 {
			let k: usize = kani::any();
			kani::assume(k >= 1 && k <= rest);
			self.win = k;
		}
		Ok(&self.data[self.pos..self.pos + self.win])
	}
	fn consume(&mut self, amt: usize) {
		assert!(amt <= self.win, "consume() beyond the window handed out");
		self.pos += amt;
		self.win -= amt;
	}
}

/// Reference UTF-8 encoder, written from the table in the Unicode standard (3.9, table 3-6),
/// independent of core::char.
fn ref_utf8(c: u32, out: &mut [u8], n: &mut usize) {
	if c < 0x80 {
		out[*n] = c as u8;
		*n += 1;
	} else if c < 0x800 {
		out[*n] = 0xC0 | (c >> 6) as u8;
		out[*n + 1] = 0x80 | (c & 0x3F) as u8;
		*n += 2;
	} else if c < 0x10000 {
		out[*n] = 0xE0 | (c >> 12) as u8;
		out[*n + 1] = 0x80 | ((c >> 6) & 0x3F) as u8;
		out[*n + 2] = 0x80 | (c & 0x3F) as u8;
		*n += 3;
	} else {
		out[*n] = 0xF0 | (c >> 18) as u8;
		out[*n + 1] = 0x80 | ((c >> 12) & 0x3F) as u8;
		out[*n + 2] = 0x80 | ((c >> 6) & 0x3F) as u8;
		out[*n + 3] = 0x80 | (c & 0x3F) as u8;
		*n += 4;
	}
}

fn is_scalar(c: u32) -> bool {
	c <= 0x10FFFF && !(0xD800..=0xDFFF).contains(&c)
}

// ---------------------------------------------------------------------------------------
// B1: Encoding::detect equals the table of YAML 1.2.2 section 5.2, for every prefix
// ---------------------------------------------------------------------------------------

/// 0 utf8, 1 utf16be, 2 utf32be, 3 utf16le, 4 utf32le - rows of the spec table, top to bottom
pub(super) fn ref_detect(p: &[u8]) -> u8 {
	let n = p.len();
	if n >= 4 && p[0] == 0 && p[1] == 0 && p[2] == 0xFE && p[3] == 0xFF {
		return 2;
	}
	if n >= 4 && p[0] == 0 && p[1] == 0 && p[2] == 0 {
		return 2;
	}
	if n >= 4 && p[0] == 0xFF && p[1] == 0xFE && p[2] == 0 && p[3] == 0 {
		return 4;
	}
	if n >= 4 && p[1] == 0 && p[2] == 0 && p[3] == 0 {
		return 4;
	}
	if n >= 2 && p[0] == 0xFE && p[1] == 0xFF {
		return 1;
	}
	if n >= 2 && p[0] == 0 {
		return 1;
	}
	if n >= 2 && p[0] == 0xFF && p[1] == 0xFE {
		return 3;
	}
	if n >= 2 && p[1] == 0 {
		return 3;
	}
	0
}

pub(super) fn enc_code(e: &Encoding) -> u8 {
	match e {
		Encoding::Utf8 => 0,
		Encoding::Utf16Big => 1,
		Encoding::Utf32Big => 2,
		Encoding::Utf16Little => 3,
		Encoding::Utf32Little => 4,
	}
}

#[kani::proof]
fn b1_detect_table() {
	let p: [u8; 6] = kani::any();
	let n: usize = kani::any();
	kani::assume(n <= 6);
	let e = Encoding::detect(&p[..n]);
	assert!(enc_code(&e) == ref_detect(&p[..n]), "B1: detection equals the YAML 1.2 table");
	assert!(Encoding::DETECT_LEN == 4, "B1: four bytes decide");
	kani::cover!(enc_code(&e) == 4 && p[0] == b'a', "B1 utf32le without BOM");
	kani::cover!(enc_code(&e) == 1 && n == 3, "B1 utf16be from a three byte prefix");
	kani::cover!(enc_code(&e) == 0 && n == 1, "B1 one byte is utf8");
}

// ---------------------------------------------------------------------------------------
// B2: Utf16Decoder::next - every pair of code units, both byte orders, every windowing,
//     optional odd trailing byte, optional reader fault
// ---------------------------------------------------------------------------------------

fn b2_body(with_fault: bool) {
	let u0: u16 = kani::any();
	let u1: u16 = kani::any();
	let big: bool = kani::any();
	let blen: usize = kani::any();
	kani::assume(blen <= 4);
	let b0 = if big { u0.to_be_bytes() } else { u0.to_le_bytes() };
	let b1 = if big { u1.to_be_bytes() } else { u1.to_le_bytes() };
	let bytes = [b0[0], b0[1], b1[0], b1[1]];
	let fail_at: usize = if with_fault { kani::any() } else { usize::MAX };
	if with_fault {
		kani::assume(fail_at <= blen);
	}
	let avail = min(blen, fail_at);
	let mut d = Utf16Decoder::new(
		Chunky::failing(&bytes[..blen], fail_at),
		if big { Endianness::Big } else { Endianness::Little },
	);
	let first = d.next();
	let lead = (0xD800..=0xDBFF).contains(&u0);
	let trail0 = (0xDC00..=0xDFFF).contains(&u0);
	let trail1 = (0xDC00..=0xDFFF).contains(&u1);
	match first {
		None => {
			assert!(blen == 0 && fail_at > 0, "B2: None only at a clean end of input");
		}
		Some(Ok(c)) => {
			let c = c as u32;
			assert!(is_scalar(c), "B2: every produced char is a Unicode scalar value");
			if !lead && !trail0 {
				assert!(avail >= 2 && c == u0 as u32, "B2: BMP unit decodes to itself");
				assert!(d.pos == 2);
			} else {
				assert!(lead && trail1 && avail >= 4, "B2: only a well-formed pair yields a supplementary char");
				assert!(c == 0x10000 + (((u0 as u32 - 0xD800) << 10) | (u1 as u32 - 0xDC00)), "B2: pair value");
				assert!(d.pos == 4);
				kani::cover!(c >= 0x20000, "B2 surrogate pair above plane 1");
			}
		}
		Some(Err(e)) => {
			core::mem::forget(e);
			// no spurious errors: a complete well-formed first character is never rejected
			let complete_bmp = !lead && !trail0 && avail >= 2;
			let complete_pair = lead && trail1 && avail >= 4;
			assert!(!complete_bmp && !complete_pair, "B2: well-formed input is not rejected");
			assert!(blen > 0 || fail_at == 0);
			kani::cover!(trail0, "B2 lone trail surrogate");
			kani::cover!(lead && avail >= 4 && !trail1, "B2 lead followed by non-trail");
			kani::cover!(lead && blen == 2 && !with_fault, "B2 lead at end of input");
			// after "lead, non-trail" the second unit is looked at again as a fresh first unit
			if lead && avail >= 4 && !trail1 && !d.source.failed {
				assert!(matches!(d.buf, Some(u) if u == u1), "B2: non-trail unit is kept for re-examination");
				let second = d.next();
				let lead1 = (0xD800..=0xDBFF).contains(&u1);
				match second {
					Some(Ok(c2)) => assert!(!lead1 && c2 as u32 == u1 as u32, "B2: re-examined unit decodes to itself"),
					Some(Err(e2)) => {
						core::mem::forget(e2);
						assert!(lead1 || fail_at == 4, "B2: re-examined lead needs a trail");
					}
					None => assert!(false, "B2: the kept unit is not dropped"),
				}
			}
		}
	}
	if with_fault && d.source.failed {
		kani::cover!(true, "B2 reader fault reached");
	}
	core::mem::forget(d);
}

#[kani::proof]
#[kani::unwind(6)]
fn b2_utf16_next() {
	b2_body(false);
}

#[kani::proof]
#[kani::unwind(6)]
fn b2_utf16_next_fault() {
	b2_body(true);
}

/// odd trailing byte: 1 or 3 bytes -> the dangling byte is an error, never a character
#[kani::proof]
#[kani::unwind(6)]
fn b2_utf16_truncated_unit() {
	let bytes: [u8; 3] = kani::any();
	let big: bool = kani::any();
	let one: bool = kani::any();
	let blen = if one { 1 } else { 3 };
	let mut d = Utf16Decoder::new(Chunky::new(&bytes[..blen]), if big { Endianness::Big } else { Endianness::Little });
	let mut r = d.next();
	if !one {
		let u0 = if big { u16::from_be_bytes([bytes[0], bytes[1]]) } else { u16::from_le_bytes([bytes[0], bytes[1]]) };
		if !(0xD800..=0xDFFF).contains(&u0) {
			assert!(matches!(&r, Some(Ok(c)) if *c as u32 == u0 as u32));
			core::mem::forget(r);
			r = d.next();
		}
	}
	assert!(matches!(r, Some(Err(_))), "B2: a truncated code unit is an error");
	kani::cover!(!one, "B2 truncated second unit");
	core::mem::forget(r);
	core::mem::forget(d);
}

// ---------------------------------------------------------------------------------------
// B3: Utf32Decoder::next - every u32, both byte orders, 0..4 bytes present, faults
// ---------------------------------------------------------------------------------------

fn b3_body(with_fault: bool) {
	let u: u32 = kani::any();
	let big: bool = kani::any();
	let blen: usize = kani::any();
	kani::assume(blen <= 4);
	let bytes = if big { u.to_be_bytes() } else { u.to_le_bytes() };
	let fail_at: usize = if with_fault { kani::any() } else { usize::MAX };
	if with_fault {
		kani::assume(fail_at <= blen);
	}
	let avail = min(blen, fail_at);
	let mut d = Utf32Decoder::new(
		Chunky::failing(&bytes[..blen], fail_at),
		if big { Endianness::Big } else { Endianness::Little },
	);
	match d.next() {
		None => assert!(blen == 0 && fail_at > 0, "B3: None only at a clean end of input"),
		Some(Ok(c)) => {
			assert!(avail == 4 && c as u32 == u && is_scalar(u), "B3: only a complete scalar value decodes");
			assert!(d.pos == 4);
			kani::cover!(u > 0xFFFF, "B3 supplementary scalar");
		}
		Some(Err(e)) => {
			core::mem::forget(e);
			assert!(!(avail == 4 && is_scalar(u)), "B3: well-formed input is not rejected");
			kani::cover!(avail == 4 && u > 0x10FFFF, "B3 value above U+10FFFF");
			kani::cover!(avail == 4 && (0xD800..=0xDFFF).contains(&u), "B3 surrogate value");
			kani::cover!(blen == 3 && !with_fault, "B3 truncated unit");
		}
	}
	if with_fault && d.source.failed {
		kani::cover!(true, "B3 reader fault reached");
	}
	core::mem::forget(d);
}

#[kani::proof]
#[kani::unwind(6)]
fn b3_utf32_next() {
	b3_body(false);
}

#[kani::proof]
#[kani::unwind(6)]
fn b3_utf32_next_fault() {
	b3_body(true);
}

// ---------------------------------------------------------------------------------------
// B4: one Utf8Encoder::read from an arbitrary valid state (inductive step)
// ---------------------------------------------------------------------------------------

struct Chars<const N: usize> {
	c: [char; N],
	n: usize,
	i: usize,
	err_at: usize,
	err_given: bool,
}
impl<const N: usize> Iterator for Chars<N> {
	type Item = io::Result<char>;
	fn next(&mut self) -> Option<io::Result<char>> {
		if self.i == self.err_at && !self.err_given {
			self.err_given = true;
			return Some(Err(io::Error::from(io::ErrorKind::Other)));
		}
		if self.i < self.n {
			self.i += 1;
			Some(Ok(self.c[self.i - 1]))
		} else {
			None
		}
	}
}

fn b4_body<const N: usize, const W: usize, const P: usize>(with_err: bool) {
	let c: [char; N] = kani::any();
	let n: usize = kani::any();
	kani::assume(n <= N);
	let started: bool = kani::any();
	let rbuf: [u8; 4] = kani::any();
	let rpos: usize = kani::any();
	let rlen: usize = kani::any();
	kani::assume(rpos <= rlen && rlen <= 4);
	// a pending remainder only exists after at least one char was pulled
	kani::assume(started || rpos == rlen);
	let err_at: usize = if with_err { kani::any() } else { usize::MAX };
	if with_err {
		kani::assume(err_at <= n);
	}
	let upto = if with_err { err_at } else { n };

	// P = unread remainder ++ utf8(pending chars before the error item), BOM skipped iff first
	let mut p = [0u8; P];
	let mut pn = 0usize;
	let mut k = rpos;
	while k < rlen {
		p[pn] = rbuf[k];
		pn += 1;
		k += 1;
	}
	let mut k = 0;
	while k < upto {
		if !(k == 0 && !started && c[0] == '\u{FEFF}') {
			ref_utf8(c[k] as u32, &mut p, &mut pn);
		}
		k += 1;
	}

	let mut e = Utf8Encoder::new(Chars::<N> { c, n, i: 0, err_at, err_given: false });
	e.started = started;
	e.remainder.buf = rbuf;
	e.remainder.pos = rpos;
	e.remainder.len = rlen;

	let want: usize = kani::any();
	kani::assume(want <= W);
	let mut tmp = [0u8; W];
	let res = e.read(&mut tmp[..want]);
	let m = match res {
		Ok(m) => m,
		Err(err) => {
			core::mem::forget(err);
			assert!(with_err && e.source.err_given && want > pn, "B4: Err only when the source's error item was reached");
			kani::cover!(true, "B4 source error surfaces as Err");
			return;
		}
	};
	// the error item is never swallowed into a short Ok
	assert!(!(with_err && want > pn), "B4: a source error is never converted into Ok");
	assert!(m == if want < pn { want } else { pn }, "B4: read fills the buffer or drains the stream");
	let mut j = 0;
	while j < W {
		if j < m {
			assert!(tmp[j] == p[j], "B4: bytes are the next bytes of the reference UTF-8 stream");
		}
		j += 1;
	}
	// post-state: remainder ++ utf8(rest of chars) == P[m..]
	assert!(e.remainder.pos <= e.remainder.len && e.remainder.len <= 4, "B4: remainder indices in range");
	let mut q = [0u8; P];
	let mut qn = 0usize;
	let mut k = e.remainder.pos;
	while k < e.remainder.len {
		q[qn] = e.remainder.buf[k];
		qn += 1;
		k += 1;
	}
	let mut k = e.source.i;
	while k < upto {
		if !(k == 0 && !e.started && c[0] == '\u{FEFF}') {
			ref_utf8(c[k] as u32, &mut q, &mut qn);
		}
		k += 1;
	}
	assert!(qn == pn - m, "B4: nothing lost, nothing invented");
	let mut j = 0;
	while j < P {
		if j < qn {
			assert!(q[j] == p[m + j], "B4: post-state encodes exactly the rest of the stream");
		}
		j += 1;
	}
	kani::cover!(e.remainder.pos < e.remainder.len && m > 0, "B4 char split across two reads");
	kani::cover!(!started && n >= 1 && c[0] == '\u{FEFF}' && m > 0, "B4 leading BOM skipped");
}

#[kani::proof]
#[kani::unwind(14)]
fn b4_utf8_step_quick() {
	b4_body::<2, 5, 12>(false);
}

#[kani::proof]
#[kani::unwind(14)]
fn b4_utf8_step_err_quick() {
	b4_body::<2, 5, 12>(true);
}

#[kani::proof]
#[kani::unwind(18)]
fn b4_utf8_step_full() {
	b4_body::<3, 9, 16>(false);
}

// ---------------------------------------------------------------------------------------
// B5: the composed Encoder (real type wiring), UTF-16 two units / UTF-32 one-two units
// ---------------------------------------------------------------------------------------

/// reference transcoding of `data` under encoding code `enc` (1..4): returns false if ill-formed
fn ref_transcode(enc: u8, data: &[u8], out: &mut [u8], on: &mut usize) -> bool {
	let big = enc == 1 || enc == 2;
	let mut first = true;
	if enc == 1 || enc == 3 {
		let mut k = 0;
		while k + 2 <= data.len() {
			let u = if big { u16::from_be_bytes([data[k], data[k + 1]]) } else { u16::from_le_bytes([data[k], data[k + 1]]) } as u32;
			if u < 0xD800 || u > 0xDFFF {
				if !(first && u == 0xFEFF) {
					ref_utf8(u, out, on);
				}
				k += 2;
			} else if u <= 0xDBFF && k + 4 <= data.len() {
				let t = if big { u16::from_be_bytes([data[k + 2], data[k + 3]]) } else { u16::from_le_bytes([data[k + 2], data[k + 3]]) } as u32;
				if !(0xDC00..=0xDFFF).contains(&t) {
					return false;
				}
				ref_utf8(0x10000 + (((u - 0xD800) << 10) | (t - 0xDC00)), out, on);
				k += 4;
			} else {
				return false;
			}
			first = false;
		}
		k == data.len()
	} else {
		let mut k = 0;
		while k + 4 <= data.len() {
			let b = [data[k], data[k + 1], data[k + 2], data[k + 3]];
			let u = if big { u32::from_be_bytes(b) } else { u32::from_le_bytes(b) };
			if !is_scalar(u) {
				return false;
			}
			if !(first && u == 0xFEFF) {
				ref_utf8(u, out, on);
			}
			first = false;
			k += 4;
		}
		k == data.len()
	}
}

fn drain<R: Read>(e: &mut R, got: &mut [u8; 16], gn: &mut usize, max_want: usize, steps: usize) -> (bool, bool) {
	let mut errored = false;
	let mut eof = false;
	let mut s = 0;
	while s < steps && !errored && !eof {
		let want: usize = kani::any();
		kani::assume(want >= 1 && want <= max_want);
		let mut tmp = [0u8; 12];
		match e.read(&mut tmp[..want]) {
			Ok(0) => eof = true,
			Ok(n) => {
				assert!(n <= want);
				let mut j = 0;
				while j < n {
					got[*gn] = tmp[j];
					*gn += 1;
					j += 1;
				}
			}
			Err(err) => {
				errored = true;
				core::mem::forget(err);
			}
		}
		s += 1;
	}
	(errored, eof)
}

fn compose_check(enc: u8, data: &[u8], got: &[u8; 16], gn: usize, errored: bool, eof: bool) {
	let mut exp = [0u8; 16];
	let mut en = 0usize;
	let ok = if enc == 0 {
		let mut k = 0;
		while k < data.len() {
			exp[k] = data[k];
			k += 1;
		}
		en = data.len();
		true
	} else {
		ref_transcode(enc, data, &mut exp, &mut en)
	};
	assert!(errored || eof, "B5: the stream ends or fails within the step bound");
	assert!(gn <= en, "B5: never more than the reference text");
	let mut j = 0;
	while j < 16 {
		if j < gn {
			assert!(got[j] == exp[j], "B5: output is a prefix of the reference UTF-8 text");
		}
		j += 1;
	}
	if ok {
		assert!(eof && gn == en, "B5: well-formed input is re-encoded completely");
	} else {
		assert!(errored, "B5: ill-formed input is an error, not silence");
	}
}

#[kani::proof]
#[kani::unwind(18)]
fn b5_encoder_utf16() {
	let data: [u8; 4] = kani::any();
	let len: usize = kani::any();
	kani::assume(len <= 4);
	let big: bool = kani::any();
	let enc = if big { 1 } else { 3 };
	let mut e = Encoder::new(Chunky::new(&data[..len]), if big { Encoding::Utf16Big } else { Encoding::Utf16Little });
	let mut got = [0u8; 16];
	let mut gn = 0;
	let (errored, eof) = drain(&mut e, &mut got, &mut gn, 5, 8);
	compose_check(enc, &data[..len], &got, gn, errored, eof);
	kani::cover!(eof && gn == 4, "B5 surrogate pair through the composed encoder");
	kani::cover!(eof && gn == 0 && len == 2, "B5 lone BOM yields empty text");
	core::mem::forget(e);
}

#[kani::proof]
#[kani::unwind(18)]
fn b5_encoder_utf32() {
	let data: [u8; 8] = kani::any();
	let len: usize = kani::any();
	kani::assume(len <= 8);
	let big: bool = kani::any();
	let enc = if big { 2 } else { 4 };
	let mut e = Encoder::new(Chunky::new(&data[..len]), if big { Encoding::Utf32Big } else { Encoding::Utf32Little });
	let mut got = [0u8; 16];
	let mut gn = 0;
	let (errored, eof) = drain(&mut e, &mut got, &mut gn, 5, 10);
	compose_check(enc, &data[..len], &got, gn, errored, eof);
	kani::cover!(eof && gn == 8, "B5 two supplementary chars");
	core::mem::forget(e);
}

// ---------------------------------------------------------------------------------------
// B6: Encoder::from_reader - the four peeked bytes decide the encoding for EVERY windowing
//     of the source, and are chained back in front of the rest
// ---------------------------------------------------------------------------------------

/// Documented contract of `std::io::copy` (std's implementation fills an 8 KiB stack buffer,
/// which needs an unwinding bound of 8192): read with arbitrary buffer sizes until Ok(0),
/// write_all every piece to the writer, return the first error.
fn io_copy_contract<R: ?Sized + Read, W: ?Sized + Write>(r: &mut R, w: &mut W) -> io::Result<u64> {
	let mut total = 0u64;
	loop {
		let want: usize = kani::any();
		kani::assume(want >= 1 && want <= 8);
		let mut tmp = [0u8; 8];
		match r.read(&mut tmp[..want]) {
			Ok(0) => return Ok(total),
			Ok(n) => {
				w.write_all(&tmp[..n])?;
				total += n as u64;
			}
			Err(e) => return Err(e),
		}
	}
}

fn b6_body<const L: usize>(utf8_only: bool) {
	let data: [u8; L] = kani::any();
	let len: usize = kani::any();
	kani::assume(len <= L);
	if utf8_only {
		// first two bytes neither NUL nor BOM halves => UTF-8 by the table; cheap passthrough case with len > 4
		kani::assume(data[0] != 0 && data[0] < 0xFE && data[1] != 0 && data[1] < 0xFE);
	}
	let enc = ref_detect(&data[..min(len, 4)]);
	let r = Encoder::from_reader(Chunky::new(&data[..len]));
	let mut e = match r {
		Ok(e) => e,
		Err(err) => {
			core::mem::forget(err);
			assert!(false, "B6: from_reader fails only if the source fails");
			return;
		}
	};
	let mut got = [0u8; 16];
	let mut gn = 0;
	// one read with a buffer that holds the whole text, then one more to observe the end
	let (errored, eof) = drain(&mut e, &mut got, &mut gn, 12, 2);
	compose_check(enc, &data[..len], &got, gn, errored, eof || gn > 0);
	kani::cover!(enc == 3 && gn >= 2, "B6 utf16le text detected and re-encoded");
	kani::cover!(enc == 0 && gn == len && len >= 5, "B6 utf8 passthrough keeps the peeked bytes");
	kani::cover!(enc == 4 && gn >= 1, "B6 utf32le detected");
	core::mem::forget(e);
}

#[kani::proof]
#[kani::stub(std::io::copy, io_copy_contract)]
#[kani::unwind(18)]
fn b6_from_reader_prefix() {
	b6_body::<4>(false);
}

#[kani::proof]
#[kani::stub(std::io::copy, io_copy_contract)]
#[kani::unwind(18)]
fn b6_from_reader_chain_back() {
	b6_body::<6>(true);
}

#[kani::proof]
#[kani::stub(std::io::copy, io_copy_contract)]
#[kani::unwind(18)]
fn b6_from_reader_prefix_8() {
	b6_body::<8>(false);
}

// ---------------------------------------------------------------------------------------
// B7: ArrayBuffer is a FIFO of bytes with a fixed capacity
// ---------------------------------------------------------------------------------------

/// B7: every program of four operations (write / read / consume / set / fill_buf / is_empty) on an
/// ArrayBuffer<4>, against the obvious specification: bytes come out in the order they were accepted,
/// each exactly once; `is_empty` holds exactly when every accepted byte has been taken; `write` accepts
/// as much as still fits behind what was accepted since the last `set`; `set` replaces the content.
#[kani::proof]
#[kani::unwind(8)]
fn b7_array_buffer_programs() {
	const CAP: usize = 4;
	let mut ab: ArrayBuffer<CAP> = ArrayBuffer::new();
	// the specification state: what was accepted since the last set, and how much of it was taken
	let mut accepted = [0u8; CAP];
	let mut alen = 0usize;
	let mut taken = 0usize;
	let mut step = 0;
	while step < 4 {
		let op: u8 = kani::any();
		kani::assume(op < 4);
		let data: [u8; 3] = kani::any();
		let n: usize = kani::any();
		kani::assume(n <= 3);
		if op == 0 {
			let got = match ab.write(&data[..n]) {
				Ok(g) => g,
				Err(_) => {
					assert!(false, "B7: write cannot fail");
					0
				}
			};
			let room = CAP - alen;
			assert!(got == if n < room { n } else { room }, "B7: write accepts what fits");
			let mut j = 0;
			while j < got {
				accepted[alen + j] = data[j];
				j += 1;
			}
			alen += got;
		} else if op == 1 {
			let mut out = [0u8; 3];
			let got = match ab.read(&mut out[..n]) {
				Ok(g) => g,
				Err(_) => {
					assert!(false, "B7: read cannot fail");
					0
				}
			};
			let avail = alen - taken;
			assert!(got == if n < avail { n } else { avail }, "B7: read hands out what is there, up to the buffer size");
			let mut j = 0;
			while j < got {
				assert!(out[j] == accepted[taken + j], "B7: bytes come out in the order they went in");
				j += 1;
			}
			taken += got;
			kani::cover!(got == 2 && taken == 3, "B7 second read continues where the first stopped");
		} else if op == 2 {
			let avail = alen - taken;
			if n <= avail {
				ab.consume(n);
				taken += n;
			}
		} else {
			ab.set(&data[..n]);
			let mut j = 0;
			while j < n {
				accepted[j] = data[j];
				j += 1;
			}
			alen = n;
			taken = 0;
		}
		// observers after every step
		assert!(ab.is_empty() == (taken == alen), "B7: is_empty exactly when every accepted byte has been taken");
		let view = match ab.fill_buf() {
			Ok(v) => v,
			Err(_) => {
				assert!(false, "B7: fill_buf cannot fail");
				&[]
			}
		};
		assert!(view.len() == alen - taken, "B7: fill_buf shows exactly the bytes not yet taken");
		let mut j = 0;
		while j < CAP {
			if j < view.len() {
				assert!(view[j] == accepted[taken + j], "B7: fill_buf shows them in order");
			}
			j += 1;
		}
		step += 1;
	}
	kani::cover!(alen == 4 && taken == 4, "B7 filled and drained");
}
