// Family B, second file: the UTF-8 re-encoder driven through its constructor only. Unlike B4 (one read from an
// arbitrary state, which sets private fields directly) this harness still compiles when the encoder's internal state
// is reorganised. Injected on its own (registry: hfile) as `#[cfg(kani)] mod verif_kani;` at the end of
// src/yaml/encoding.rs.
use super::*;

fn ref_utf8(c: u32, out: &mut [u8], n: &mut usize) {
	if c < 0x80 {
		out[*n] = c as u8;
		*n += 1;
	} else if c < 0x800 {
		out[*n] = 0xc0 | (c >> 6) as u8;
		out[*n + 1] = 0x80 | (c & 0x3f) as u8;
		*n += 2;
	} else if c < 0x10000 {
		out[*n] = 0xe0 | (c >> 12) as u8;
		out[*n + 1] = 0x80 | ((c >> 6) & 0x3f) as u8;
		out[*n + 2] = 0x80 | (c & 0x3f) as u8;
		*n += 3;
	} else {
		out[*n] = 0xf0 | (c >> 18) as u8;
		out[*n + 1] = 0x80 | ((c >> 12) & 0x3f) as u8;
		out[*n + 2] = 0x80 | ((c >> 6) & 0x3f) as u8;
		out[*n + 3] = 0x80 | (c & 0x3f) as u8;
		*n += 4;
	}
}

struct Chars3 {
	c: [char; 3],
	n: usize,
	i: usize,
}
impl Iterator for Chars3 {
	type Item = io::Result<char>;
	fn next(&mut self) -> Option<io::Result<char>> {
		if self.i < self.n {
			self.i += 1;
			Some(Ok(self.c[self.i - 1]))
		} else {
			None
		}
	}
}

/// B8: three arbitrary characters through a fresh Utf8Encoder, read in one piece: the bytes are
/// exactly the UTF-8 encoding of the characters, except that ONE leading U+FEFF (the byte order mark of the stream) is
/// dropped - a U+FEFF anywhere else is data.
#[kani::proof]
#[kani::unwind(16)]
fn b8_utf8_encoder_from_start() {
	let c: [char; 3] = kani::any();
	let n: usize = kani::any();
	kani::assume(n <= 3);
	let mut want = [0u8; 12];
	let mut wn = 0usize;
	let mut k = 0;
	while k < n {
		if !(k == 0 && c[0] == '\u{FEFF}') {
			ref_utf8(c[k] as u32, &mut want, &mut wn);
		}
		k += 1;
	}
	let mut e = Utf8Encoder::new(Chars3 { c, n, i: 0 });
	// one read into a buffer that takes everything (how reads split characters is B4's subject), then the end of the stream
	let mut buf = [0u8; 16];
	let m = match e.read(&mut buf) {
		Ok(m) => m,
		Err(err) => {
			core::mem::forget(err);
			assert!(false, "B8: no error without a source error");
			0
		}
	};
	assert!(m == wn, "B8: a read into a large enough buffer drains the stream");
	let mut j = 0;
	while j < 12 {
		if j < m {
			assert!(buf[j] == want[j], "B8: the bytes are the UTF-8 encoding of the characters, only a leading U+FEFF is dropped");
		}
		j += 1;
	}
	let mut tail = [0u8; 4];
	let m2 = match e.read(&mut tail) {
		Ok(m) => m,
		Err(err) => {
			core::mem::forget(err);
			1
		}
	};
	assert!(m2 == 0, "B8: then the stream has ended");
	let got = m;
	kani::cover!(n == 3 && c[0] == '\u{FEFF}' && c[2] == '\u{FEFF}' && got >= 4, "B8 U+FEFF after the byte order mark is data");
	kani::cover!(got == 12, "B8 three astral characters");
	core::mem::forget(e);
}

/// B9: the byte order mark rule alone, without the byte plumbing of `read`: the characters a fresh Utf8Encoder takes
/// from its source (`next_char`, called until the end) are the source's characters in order, each once, except that
/// ONE U+FEFF in front of everything is dropped. A U+FEFF anywhere else - also directly behind the byte order mark -
/// is data (YAML text may contain ZERO WIDTH NO-BREAK SPACE), and the end / an error of the source is passed on where
/// it occurred. Driven through `new` and `next_char` only, so it compiles against any reorganisation of the encoder's
/// private state, and cheap enough for the quick tier (B8, which also runs `read`, is not).
#[kani::proof]
#[kani::unwind(8)]
fn b9_next_char_bom_rule() {
	let c: [char; 3] = kani::any();
	let n: usize = kani::any();
	kani::assume(n <= 3);
	let mut e = Utf8Encoder::new(Chars3 { c, n, i: 0 });
	// reference: skip c[0] when it is the mark
	let skip = if n > 0 && c[0] == '\u{FEFF}' { 1 } else { 0 };
	let mut k = skip;
	let mut calls = 0;
	while calls < 4 {
		let got = e.next_char();
		if k < n {
			match got {
				Some(Ok(ch)) => assert!(ch == c[k], "B9: characters come through in order, each once; only one leading U+FEFF is dropped"),
				Some(Err(err)) => {
					core::mem::forget(err);
					assert!(false, "B9: no error without a source error");
				}
				None => assert!(false, "B9: no character is lost (a U+FEFF that is not the first character is data)"),
			}
			k += 1;
		} else {
			match got {
				None => {}
				Some(r) => {
					core::mem::forget(r);
					assert!(false, "B9: nothing is fabricated after the end of the source");
				}
			}
		}
		calls += 1;
	}
	kani::cover!(n == 3 && c[0] == '\u{FEFF}' && c[1] == '\u{FEFF}', "B9 U+FEFF directly behind the byte order mark is data");
	kani::cover!(n == 3 && c[0] != '\u{FEFF}' && c[2] == '\u{FEFF}', "B9 no mark, U+FEFF later");
	core::mem::forget(e);
}
