// Family G (DESIGN.md 5.G): the chunker's capture buffer. Child module of src/yaml/chunker.rs.
use super::*;

struct NoRead;
impl Read for NoRead {
	fn read(&mut self, _b: &mut [u8]) -> io::Result<usize> {
		Ok(0)
	}
}

/// G1: trim_to_offset / take_to_offset from an arbitrary buffer state, for every offset that
/// satisfies the libyaml mark contract (marks lie inside what was read, never before the last trim).
#[kani::proof]
#[kani::unwind(8)]
fn g1_chunkreader_step() {
	let n: usize = kani::any();
	kani::assume(n <= 5);
	let bytes: [u8; 5] = kani::any();
	let mut v: Vec<u8> = Vec::new();
	let mut i = 0;
	while i < n {
		v.push(bytes[i]);
		i += 1;
	}
	let start: u64 = kani::any();
	kani::assume(start <= u64::MAX - 8);
	let mut cr = ChunkReader { reader: NoRead, captured: v, captured_start_offset: start };
	let off: u64 = kani::any();
	kani::assume(off >= start && off - start <= n as u64);
	let k = (off - start) as usize;
	if kani::any() {
		// DOCUMENT-START: everything in front of the document may go, but the document's first line must keep its
		// indentation - the spaces right in front of its first token - or the block structure of the chunk differs
		// from the one in the stream ("  - x\n  - y" would become "- x\n  - y", i.e. the single scalar "x - y").
		let mut sp = 0;
		while sp < k && bytes[k - 1 - sp] == b' ' {
			sp += 1;
		}
		cr.trim_to_offset(off);
		let dropped = n - cr.captured.len();
		assert!(cr.captured.len() <= n && cr.captured_start_offset == start + dropped as u64, "G1: the start offset accounts for exactly the dropped bytes");
		assert!(dropped <= k, "G1: nothing at or after the offset is dropped");
		assert!(dropped <= k - sp, "G1: the first line of a document keeps the indentation in front of its first token");
		let mut j = 0;
		while j < 5 {
			if j < n - dropped {
				assert!(cr.captured[j] == bytes[dropped + j], "G1: the kept bytes are a suffix of the captured bytes");
			}
			j += 1;
		}
		kani::cover!(k == 2 && n == 5, "G1 trim in the middle");
		kani::cover!(sp == 2 && k == 3 && n == 5, "G1 trim in front of an indented token");
	} else {
		let chunk = cr.take_to_offset(off);
		assert!(chunk.len() == k && cr.captured.len() == n - k && cr.captured_start_offset == off, "G1: take splits exactly at the offset");
		let mut j = 0;
		while j < 5 {
			if j < k {
				assert!(chunk[j] == bytes[j], "G1: the chunk is the bytes before the offset");
			}
			if j < n - k {
				assert!(cr.captured[j] == bytes[k + j], "G1: the rest stays captured");
			}
			j += 1;
		}
		kani::cover!(k == 3 && n == 5, "G1 take in the middle");
		core::mem::forget(chunk);
	}
	core::mem::forget(cr);
}

struct Claims {
	claim: usize,
	fail: bool,
	salt: u8,
	/// which error kind a failing read reports (0 Other, 1 Interrupted, 2 WouldBlock)
	kind: u8,
	calls: u32,
}
impl Read for Claims {
	fn read(&mut self, buf: &mut [u8]) -> io::Result<usize> {
		self.calls += 1;
		let mut i = 0;
		while i < buf.len() {
			buf[i] = self.salt ^ (i as u8);
			i += 1;
		}
		// the failure is reported once; a retry would succeed
		if self.fail && self.calls == 1 {
			return Err(io::Error::from(match self.kind {
				1 => io::ErrorKind::Interrupted,
				2 => io::ErrorKind::WouldBlock,
				_ => io::ErrorKind::Other,
			}));
		}
		Ok(self.claim)
	}
}

/// G2a: ChunkReader::read with a reader that reports any length up to the buffer size (short
/// reads) or fails: exactly the reported bytes are appended to the capture, an error appends nothing.
#[kani::proof]
#[kani::unwind(8)]
fn g2_chunkreader_read() {
	let size: usize = kani::any();
	kani::assume(size <= 4);
	let claim: usize = kani::any();
	kani::assume(claim <= size);
	let fail: bool = kani::any();
	let salt: u8 = kani::any();
	let kind: u8 = kani::any();
	kani::assume(kind <= 2);
	let mut cr = ChunkReader::new(Claims { claim, fail, salt, kind, calls: 0 });
	cr.captured.push(0x55);
	let mut buf = [0u8; 4];
	match cr.read(&mut buf[..size]) {
		Ok(n) => {
			assert!(!fail && n == claim && cr.reader.calls == 1, "G2: one read of the inner reader; its count is passed through; every reader error (of any kind) is reported to the parser, which treats it as fatal");
			assert!(cr.captured.len() == 1 + n, "G2: exactly the bytes read are captured");
			let mut j = 0;
			while j < 4 {
				if j < n {
					assert!(cr.captured[1 + j] == buf[j] && buf[j] == salt ^ (j as u8), "G2: captured bytes equal the bytes handed to the parser");
				}
				j += 1;
			}
			kani::cover!(n == 3, "G2 three bytes captured");
		}
		Err(e) => {
			core::mem::forget(e);
			assert!(fail && cr.captured.len() == 1, "G2: a failed read captures nothing");
			assert!(cr.reader.calls == 1, "G2: the failing read is reported, not retried");
			kani::cover!(kind == 1, "G2 reader error");
		}
	}
	core::mem::forget(cr);
}

/// G2b: a reader that claims MORE than the buffer holds ends in a clean panic (slice index),
/// with no memory-safety violation on the way.
#[kani::proof]
#[kani::should_panic]
#[kani::unwind(8)]
fn g2_chunkreader_overclaim_panics() {
	let size: usize = kani::any();
	kani::assume(size <= 4);
	let claim: usize = kani::any();
	kani::assume(claim > size);
	let mut cr = ChunkReader::new(Claims { claim, fail: false, salt: 0, kind: 0, calls: 0 });
	let mut buf = [0u8; 4];
	let r = cr.read(&mut buf[..size]);
	core::mem::forget(r);
	core::mem::forget(cr);
}
