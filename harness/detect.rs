// Family F (DESIGN.md 5.F): the detection driver. Child module of src/detect.rs.
// The four format trials are replaced by stubs with symbolic outcomes; what is checked is
// xt's own sequencing: fixed order, a rewound borrow for every trial, stop at the first
// non-false outcome, errors passed through.
use super::*;

static mut ORDER: [u8; 4] = [0; 4];
static mut NCALLS: usize = 0;
static mut PLAN: [u8; 4] = [0; 4]; // 0 => Ok(false), 1 => Ok(true), 2 => Err
static mut FIRST: u8 = 0;
static mut LEN: usize = 0;
static mut NOT_REWOUND: bool = false;

fn trial(id: u8, mut input: input::Ref) -> io::Result<bool> {
	unsafe {
		// every trial must see the stream from its very beginning
		match &mut input {
			input::Ref::Reader(r) => {
				let mut b = [0u8; 1];
				match io::Read::read(r, &mut b) {
					Ok(n) => {
						if (n == 0) != (LEN == 0) || (n == 1 && b[0] != FIRST) {
							NOT_REWOUND = true;
						}
					}
					Err(e) => {
						core::mem::forget(e);
						NOT_REWOUND = true;
					}
				}
			}
			input::Ref::Slice(b) => {
				if b.len() != LEN || (LEN > 0 && b[0] != FIRST) {
					NOT_REWOUND = true;
				}
			}
		}
		if NCALLS < 4 {
			ORDER[NCALLS] = id;
		}
		NCALLS += 1;
		match PLAN[(id - 1) as usize] {
			0 => Ok(false),
			1 => Ok(true),
			_ => Err(io::Error::from(io::ErrorKind::Other)),
		}
	}
}
fn t_msgpack(i: input::Ref) -> io::Result<bool> {
	trial(1, i)
}
fn t_json(i: input::Ref) -> io::Result<bool> {
	trial(2, i)
}
fn t_yaml(i: input::Ref) -> io::Result<bool> {
	trial(3, i)
}
fn t_toml(i: input::Ref) -> io::Result<bool> {
	trial(4, i)
}

fn f1_body(reader: bool) {
	let data: [u8; 2] = kani::any();
	let len: usize = kani::any();
	kani::assume(len <= 2);
	unsafe {
		FIRST = data[0];
		LEN = len;
		PLAN = kani::any();
		kani::assume(PLAN[0] <= 2 && PLAN[1] <= 2 && PLAN[2] <= 2 && PLAN[3] <= 2);
	}
	let mut h = if reader { input::Handle::from_reader(&data[..len]) } else { input::Handle::from_slice(&data[..len]) };
	let r = detect_format(&mut h);
	unsafe {
		assert!(!NOT_REWOUND, "F1: every trial gets a borrow that starts at byte 0 of the input");
		assert!(NCALLS >= 1 && NCALLS <= 4, "F1: between one and four trials");
		let mut i = 0;
		while i < 4 {
			if i < NCALLS {
				assert!(ORDER[i] == (i + 1) as u8, "F1: trial order MessagePack, JSON, YAML, TOML");
			}
			if i + 1 < NCALLS {
				assert!(PLAN[i] == 0, "F1: detection stops at the first trial that does not say 'no'");
			}
			i += 1;
		}
		let last = PLAN[NCALLS - 1];
		match &r {
			Ok(Some(f)) => {
				let got = match f {
					Format::Msgpack => 1,
					Format::Json => 2,
					Format::Yaml => 3,
					Format::Toml => 4,
				};
				assert!(last == 1 && got == NCALLS, "F1: the format of the first matching trial is selected");
				kani::cover!(got == 4, "F1 TOML selected last");
			}
			Ok(None) => {
				assert!(NCALLS == 4 && last == 0, "F1: None only when all four trials said no");
				kani::cover!(true, "F1 nothing detected");
			}
			Err(_) => {
				assert!(last == 2, "F1: Err only when a trial returned Err");
				kani::cover!(NCALLS == 3, "F1 error from the YAML trial");
			}
		}
	}
	core::mem::forget(r);
	core::mem::forget(h);
}

#[kani::proof]
#[kani::stub(crate::msgpack::input_matches, t_msgpack)]
#[kani::stub(crate::json::input_matches, t_json)]
#[kani::stub(crate::yaml::input_matches, t_yaml)]
#[kani::stub(crate::toml::input_matches, t_toml)]
#[kani::unwind(6)]
fn f1_detect_order_slice() {
	f1_body(false);
}

#[kani::proof]
#[kani::stub(crate::msgpack::input_matches, t_msgpack)]
#[kani::stub(crate::json::input_matches, t_json)]
#[kani::stub(crate::yaml::input_matches, t_yaml)]
#[kani::stub(crate::toml::input_matches, t_toml)]
#[kani::unwind(6)]
fn f1_detect_order_reader() {
	f1_body(true);
}
