// Reference MessagePack sizer written from the specification; shared by the Kani harnesses
// (harness/msgpack.rs) and the native replay (replay/msgpack_native.rs). Plain Rust, no kani.

#[derive(Clone, Copy, PartialEq, Eq)]
pub(crate) enum Shape {
	/// a value without children: total size in bytes (header + payload)
	Leaf(usize),
	/// the header is cut off before its length bytes
	CutHeader,
	Reserved,
	Array { hdr: usize, count: u32 },
	Map { hdr: usize, pairs: u32 },
}

fn be(input: &[u8], n: usize) -> Option<u32> {
	if input.len() < 1 + n {
		return None;
	}
	let mut v: u32 = 0;
	let mut i = 0;
	while i < n {
		v = (v << 8) | input[1 + i] as u32;
		i += 1;
	}
	Some(v)
}

/// input must be non-empty
pub(crate) fn spec_shape(input: &[u8]) -> Shape {
	let b = input[0];
	let lenf = |n: usize, fixed: usize| match be(input, n) {
		Some(l) => Shape::Leaf(fixed + l as usize),
		None => Shape::CutHeader,
	};
	match b {
		0x00..=0x7f => Shape::Leaf(1),
		0x80..=0x8f => Shape::Map { hdr: 1, pairs: (b & 0x0f) as u32 },
		0x90..=0x9f => Shape::Array { hdr: 1, count: (b & 0x0f) as u32 },
		0xa0..=0xbf => Shape::Leaf(1 + (b & 0x1f) as usize),
		0xc0 | 0xc2 | 0xc3 => Shape::Leaf(1),
		0xc1 => Shape::Reserved,
		0xc4 => lenf(1, 2),
		0xc5 => lenf(2, 3),
		0xc6 => lenf(4, 5),
		0xc7 => lenf(1, 3),
		0xc8 => lenf(2, 4),
		0xc9 => lenf(4, 6),
		0xca => Shape::Leaf(5),
		0xcb => Shape::Leaf(9),
		0xcc => Shape::Leaf(2),
		0xcd => Shape::Leaf(3),
		0xce => Shape::Leaf(5),
		0xcf => Shape::Leaf(9),
		0xd0 => Shape::Leaf(2),
		0xd1 => Shape::Leaf(3),
		0xd2 => Shape::Leaf(5),
		0xd3 => Shape::Leaf(9),
		0xd4 => Shape::Leaf(3),
		0xd5 => Shape::Leaf(4),
		0xd6 => Shape::Leaf(6),
		0xd7 => Shape::Leaf(10),
		0xd8 => Shape::Leaf(18),
		0xd9 => lenf(1, 2),
		0xda => lenf(2, 3),
		0xdb => lenf(4, 5),
		0xdc => match be(input, 2) {
			Some(c) => Shape::Array { hdr: 3, count: c },
			None => Shape::CutHeader,
		},
		0xdd => match be(input, 4) {
			Some(c) => Shape::Array { hdr: 5, count: c },
			None => Shape::CutHeader,
		},
		0xde => match be(input, 2) {
			Some(c) => Shape::Map { hdr: 3, pairs: c },
			None => Shape::CutHeader,
		},
		0xdf => match be(input, 4) {
			Some(c) => Shape::Map { hdr: 5, pairs: c },
			None => Shape::CutHeader,
		},
		0xe0..=0xff => Shape::Leaf(1),
	}
}

/// Reference recursion: Ok(size) / Err(code) with the error precedence of a left-to-right,
/// depth-first reader that checks the depth budget before looking at a value.
pub(crate) fn ref_size(input: &[u8], depth: usize) -> Result<usize, u8> {
	if depth == 0 {
		return Err(2);
	}
	if input.is_empty() {
		return Ok(0);
	}
	let (hdr, n) = match spec_shape(input) {
		Shape::Reserved => return Err(1),
		Shape::CutHeader => return Err(0),
		Shape::Leaf(sz) => return if sz <= input.len() { Ok(sz) } else { Err(0) },
		Shape::Array { hdr, count } => (hdr, count as u64),
		Shape::Map { hdr, pairs } => (hdr, 2 * pairs as u64),
	};
	let mut off = hdr;
	let mut k: u64 = 0;
	// a map is sized as `pairs` values followed by `pairs` values, i.e. 2*pairs values
	while k < n {
		if off >= input.len() {
			return Err(0);
		}
		off += ref_size(&input[off..], depth - 1)?;
		k += 1;
	}
	Ok(off)
}

