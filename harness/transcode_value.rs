// Family E (DESIGN.md 5.E): transcode::Value - the borrowed-value path used for TOML input.
// Child module of src/transcode/value.rs; reuses the mocks of the stream harness.
use super::super::stream::verif_kani::{set_max_hint, MDe, MSer, Role, ScalarDe, ScalarSer, World};
use super::*;
use std::cell::Cell;

fn kind_of(v: &Value<'_>) -> u8 {
	match v {
		Value::Unit => 0,
		Value::Bool(_) => 1,
		Value::I8(_) => 2,
		Value::I16(_) => 3,
		Value::I32(_) => 4,
		Value::I64(_) => 5,
		Value::I128(_) => 6,
		Value::U8(_) => 7,
		Value::U16(_) => 8,
		Value::U32(_) => 9,
		Value::U64(_) => 10,
		Value::U128(_) => 11,
		Value::F32(_) => 12,
		Value::F64(_) => 13,
		Value::Char(_) => 14,
		Value::String(_) => 15,
		Value::Bytes(_) => 16,
		Value::Seq(_) => 17,
		Value::Map(_) => 18,
	}
}

/// E1: every scalar kind and value lands in the same-typed variant and is serialized back with
/// the same type and value (strings and byte strings: borrowed, copied and owned visitor forms).
#[kani::proof]
#[kani::unwind(5)]
fn e1_value_scalars() {
	let kind: u8 = kani::any();
	kani::assume(kind <= 15); // Value::Bytes is never produced by the TOML deserializer and serializes as a sequence
	let a: u128 = kani::any();
	let s: [u8; 2] = kani::any();
	let n: usize = kani::any();
	kani::assume(n <= 2);
	let via: u8 = kani::any();
	kani::assume(via <= 2);
	let v = match Value::deserialize(ScalarDe { kind, a, s, n, via }) {
		Ok(v) => v,
		Err(e) => {
			core::mem::forget(e);
			assert!(false, "E1: a scalar always deserializes into a Value");
			return;
		}
	};
	assert!(kind_of(&v) == kind, "E1: scalar stored in the same-typed variant");
	match &v {
		Value::I64(x) => assert!(*x == a as i64),
		Value::U64(x) => assert!(*x == a as u64),
		Value::F64(x) => assert!(x.to_bits() == a as u64, "E1: float kept bit for bit"),
		Value::Bool(x) => assert!(*x == (a & 1 == 1)),
		Value::String(x) if via == 2 => assert!(matches!(x, Cow::Borrowed(_)), "E1: borrowed strings are not copied"),
		_ => {}
	}
	let hit = Cell::new(0u32);
	// the borrowed forms of ScalarDe hand out the fixed text "\u{e9}" / bytes c3 a9
	let (s2, n2) = if via == 2 && kind == 15 && n > 0 { ([0xc3u8, 0xa9u8], 2) } else { (s, n) };
	let r = v.serialize(ScalarSer { kind, a, s: s2, n: n2, hit: &hit });
	assert!(r.is_ok() && hit.get() == 1, "E1: exactly one serializer call with the same type and value");
	kani::cover!(kind == 15 && via == 2 && n > 0, "E1 borrowed string");
	kani::cover!(kind == 13, "E1 f64");
	core::mem::forget(r);
	core::mem::forget(v);
}

/// E2: structure - deserialize a document of up to 4 events (collections nested once, I8/U64/unit
/// scalars, arbitrary honest length hints) into a Value, then serialize it: the serializer sees
/// the same events in the same order and roles, and collections declare their exact length.
#[kani::proof]
#[kani::unwind(8)]
fn e2_value_structure() {
	set_max_hint(4);
	let w = World::new(4, 1, true, false, false);
	w.mode.set(1);
	let v = match Value::deserialize(MDe(&w, 0, Role::Top)) {
		Ok(v) => v,
		Err(e) => {
			core::mem::forget(e);
			assert!(w.de_has_failed(), "E2: Err only when the deserializer failed");
			return;
		}
	};
	let (announced, _, bad) = w.counts();
	assert!(!bad);
	w.mode.set(2);
	let r = v.serialize(MSer(&w));
	let (_, forwarded, bad) = w.counts();
	assert!(r.is_ok(), "E2: the monitor serializer accepts everything");
	assert!(!bad, "E2: same events, same order, same roles, exact declared lengths");
	assert!(forwarded == announced, "E2: nothing dropped, nothing duplicated");
	kani::cover!(announced >= 4 && kind_of(&v) == 18, "E2 map with an entry");
	kani::cover!(announced >= 4 && kind_of(&v) == 17, "E2 seq with two elements");
	core::mem::forget(r);
	core::mem::forget(v);
}
