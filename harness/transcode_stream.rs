// Family D (DESIGN.md 5.D): the streaming transcoder driven by a maximally non-deterministic
// mock Deserializer and an online-monitoring, fault-injecting mock Serializer.
// Child module of src/transcode/stream.rs.
use super::*;
use serde::de::{DeserializeSeed, MapAccess, SeqAccess};
use serde::ser::Impossible;
use std::cell::Cell;

/// position of a value relative to its parent
#[derive(Clone, Copy, PartialEq, Eq)]
pub(crate) enum Role {
	Top,
	Elem,
	Key,
	Val,
}

#[derive(Clone, Copy, PartialEq, Eq)]
pub(crate) enum Ev {
	Unit,
	I8(i8),
	U64(u64),
	Seq(Option<usize>),
	Map(Option<usize>),
	End,
	DeFail,
}

static mut MAX_HINT: usize = usize::MAX;

fn any_hint() -> Option<usize> {
	let h: Option<usize> = kani::any();
	if let Some(x) = h {
		kani::assume(x <= unsafe { MAX_HINT });
	}
	h
}

pub(crate) fn set_max_hint(h: usize) {
	unsafe { MAX_HINT = h };
}

fn any_ev(wide: bool) -> Ev {
	match kani::any::<u8>() {
		0 => Ev::I8(kani::any()),
		1 => Ev::Seq(any_hint()),
		2 => Ev::Map(any_hint()),
		3 if wide => Ev::Unit,
		4 if wide => Ev::U64(kani::any()),
		_ => Ev::DeFail,
	}
}

#[derive(Debug)]
pub(crate) enum DErr {
	Genuine,
	Synthetic,
}
#[derive(Debug)]
pub(crate) enum SErr {
	Genuine,
	Synthetic,
}
impl fmt::Display for DErr {
	fn fmt(&self, _: &mut fmt::Formatter) -> fmt::Result {
		Ok(())
	}
}
impl fmt::Display for SErr {
	fn fmt(&self, _: &mut fmt::Formatter) -> fmt::Result {
		Ok(())
	}
}
impl error::Error for DErr {}
impl error::Error for SErr {}
impl de::Error for DErr {
	fn custom<T: fmt::Display>(_: T) -> Self {
		DErr::Synthetic
	}
}
impl ser::Error for SErr {
	fn custom<T: fmt::Display>(_: T) -> Self {
		SErr::Synthetic
	}
}

pub(crate) struct World {
	fuel: usize,
	dmax: usize,
	wide: bool,
	de_faults: bool,
	pos: Cell<usize>,
	mailbox: Cell<Option<(Ev, Role)>>,
	role: Cell<Role>,
	mismatch: Cell<bool>,
	after_fault: Cell<bool>,
	n: Cell<usize>,
	calls: Cell<usize>,
	fail_at: usize,
	ser_failed: Cell<bool>,
	de_failed: Cell<bool>,
	max_depth_seen: Cell<usize>,
	/// 0: online monitor (streaming); 1: record announced events; 2: replay against the record
	pub mode: Cell<u8>,
	log: Cell<[Option<(Ev, Role)>; 8]>,
	cursor: Cell<usize>,
}

impl World {
	pub fn new(fuel: usize, dmax: usize, wide: bool, ser_faults: bool, de_faults: bool) -> World {
		World {
			fuel,
			dmax,
			wide,
			de_faults,
			pos: Cell::new(0),
			mailbox: Cell::new(None),
			role: Cell::new(Role::Top),
			mismatch: Cell::new(false),
			after_fault: Cell::new(false),
			n: Cell::new(0),
			calls: Cell::new(0),
			fail_at: if ser_faults { kani::any() } else { usize::MAX },
			ser_failed: Cell::new(false),
			de_failed: Cell::new(false),
			max_depth_seen: Cell::new(0),
			mode: Cell::new(0),
			log: Cell::new([None; 8]),
			cursor: Cell::new(0),
		}
	}
	pub fn counts(&self) -> (usize, usize, bool) {
		(self.pos.get(), self.n.get(), self.mismatch.get())
	}
	pub fn de_has_failed(&self) -> bool {
		self.de_failed.get()
	}
	fn de_fail(&self) -> DErr {
		self.de_failed.set(true);
		DErr::Genuine
	}
	/// the deserializer announces the next event
	fn announce(&self, e: Ev, role: Role) {
		if self.mode.get() == 1 {
			let mut l = self.log.get();
			let p = self.pos.get();
			if p < 8 {
				l[p] = Some((e, role));
			} else {
				self.mismatch.set(true);
			}
			self.log.set(l);
			self.pos.set(p + 1);
			return;
		}
		if self.mailbox.get().is_some() {
			self.mismatch.set(true); // the previous event never reached the serializer
		}
		self.mailbox.set(Some((e, role)));
		self.pos.set(self.pos.get() + 1);
	}
	fn next(&self, role: Role) -> Result<Ev, DErr> {
		if self.pos.get() >= self.fuel {
			// event bound: the rest of the input is cut off, which a deserializer reports as an error
			return Err(self.de_fail());
		}
		let e = any_ev(self.wide);
		if matches!(e, Ev::DeFail) {
			kani::assume(self.de_faults);
			return Err(self.de_fail());
		}
		self.announce(e, role);
		Ok(e)
	}
	/// one serializer call position (may be the one that fails)
	fn call(&self) -> Result<(), SErr> {
		if self.ser_failed.get() || self.de_failed.get() {
			self.after_fault.set(true); // something is emitted after the fault
		}
		let c = self.calls.get();
		self.calls.set(c + 1);
		if c == self.fail_at {
			self.ser_failed.set(true);
			Err(SErr::Genuine)
		} else {
			Ok(())
		}
	}
	/// the serializer received event `e`: it must be exactly the one just announced
	fn push(&self, e: Ev, role: Role) {
		if self.mode.get() == 2 {
			let c = self.cursor.get();
			let want = if c < 8 { self.log.get()[c] } else { None };
			// length hints are not part of a stored value: compare collection events by kind
			let same = match (want, e) {
				(Some((Ev::Seq(_), r)), Ev::Seq(_)) | (Some((Ev::Map(_), r)), Ev::Map(_)) => r == role,
				(Some(w), _) => w == (e, role),
				(None, _) => false,
			};
			if !same {
				self.mismatch.set(true);
			}
			self.cursor.set(c + 1);
			self.n.set(self.n.get() + 1);
			return;
		}
		if self.mailbox.get() != Some((e, role)) {
			self.mismatch.set(true);
		}
		self.mailbox.set(None);
		self.n.set(self.n.get() + 1);
	}
	fn scalar(&self, e: Ev) -> Result<(), SErr> {
		self.call()?;
		self.push(e, self.role.get());
		Ok(())
	}
}

// ---------------- mock deserializer
pub(crate) struct MDe<'a>(pub &'a World, pub usize, pub Role);

impl<'de, 'a> Deserializer<'de> for MDe<'a> {
	type Error = DErr;
	fn deserialize_any<V: de::Visitor<'de>>(self, v: V) -> Result<V::Value, DErr> {
		match self.0.next(self.2)? {
			Ev::Unit => v.visit_unit(),
			Ev::I8(x) => v.visit_i8(x),
			Ev::U64(x) => v.visit_u64(x),
			Ev::Seq(h) if self.1 < self.0.dmax => v.visit_seq(MAcc(self.0, self.1 + 1, h)),
			Ev::Map(h) if self.1 < self.0.dmax => v.visit_map(MAcc(self.0, self.1 + 1, h)),
			Ev::Seq(_) | Ev::Map(_) => {
				kani::assume(false); // nesting bound
				unreachable!()
			}
			Ev::End | Ev::DeFail => unreachable!(),
		}
	}
	serde::forward_to_deserialize_any! {
		bool i8 i16 i32 i64 i128 u8 u16 u32 u64 u128 f32 f64 char str string
		bytes byte_buf option unit unit_struct newtype_struct seq tuple
		tuple_struct map struct enum identifier ignored_any
	}
}

pub(crate) struct MAcc<'a>(pub &'a World, pub usize, pub Option<usize>);

impl<'a> MAcc<'a> {
	/// between two entries: end the collection, fail (e.g. a syntax error at a separator), or go on
	fn between(&self) -> Result<bool, DErr> {
		if self.1 > self.0.max_depth_seen.get() {
			self.0.max_depth_seen.set(self.1);
		}
		match kani::any::<u8>() {
			0 => {
				if self.0.pos.get() >= self.0.fuel {
					return Err(self.0.de_fail());
				}
				self.0.announce(Ev::End, Role::Top);
				Ok(false)
			}
			1 => {
				kani::assume(self.0.de_faults);
				Err(self.0.de_fail())
			}
			_ => Ok(true),
		}
	}
}

impl<'de, 'a> SeqAccess<'de> for MAcc<'a> {
	type Error = DErr;
	fn next_element_seed<T: DeserializeSeed<'de>>(&mut self, seed: T) -> Result<Option<T::Value>, DErr> {
		if !self.between()? {
			return Ok(None);
		}
		seed.deserialize(MDe(self.0, self.1, Role::Elem)).map(Some)
	}
	fn size_hint(&self) -> Option<usize> {
		self.2
	}
}
impl<'de, 'a> MapAccess<'de> for MAcc<'a> {
	type Error = DErr;
	fn next_key_seed<K: DeserializeSeed<'de>>(&mut self, seed: K) -> Result<Option<K::Value>, DErr> {
		if !self.between()? {
			return Ok(None);
		}
		seed.deserialize(MDe(self.0, self.1, Role::Key)).map(Some)
	}
	fn next_value_seed<V: DeserializeSeed<'de>>(&mut self, seed: V) -> Result<V::Value, DErr> {
		if kani::any() {
			kani::assume(self.0.de_faults);
			return Err(self.0.de_fail()); // e.g. a missing ':'
		}
		seed.deserialize(MDe(self.0, self.1, Role::Val))
	}
	fn size_hint(&self) -> Option<usize> {
		self.2
	}
}

// ---------------- mock serializer (online monitor)
pub(crate) struct MSer<'a>(pub &'a World);

impl<'a> Serializer for MSer<'a> {
	type Ok = ();
	type Error = SErr;
	type SerializeSeq = MColl<'a>;
	type SerializeTuple = Impossible<(), SErr>;
	type SerializeTupleStruct = Impossible<(), SErr>;
	type SerializeTupleVariant = Impossible<(), SErr>;
	type SerializeMap = MColl<'a>;
	type SerializeStruct = Impossible<(), SErr>;
	type SerializeStructVariant = Impossible<(), SErr>;

	fn serialize_bool(self, _: bool) -> Result<(), SErr> { self.0.mismatch.set(true); Ok(()) }
	fn serialize_i8(self, v: i8) -> Result<(), SErr> { self.0.scalar(Ev::I8(v)) }
	fn serialize_i16(self, _: i16) -> Result<(), SErr> { self.0.mismatch.set(true); Ok(()) }
	fn serialize_i32(self, _: i32) -> Result<(), SErr> { self.0.mismatch.set(true); Ok(()) }
	fn serialize_i64(self, _: i64) -> Result<(), SErr> { self.0.mismatch.set(true); Ok(()) }
	fn serialize_u8(self, _: u8) -> Result<(), SErr> { self.0.mismatch.set(true); Ok(()) }
	fn serialize_u16(self, _: u16) -> Result<(), SErr> { self.0.mismatch.set(true); Ok(()) }
	fn serialize_u32(self, _: u32) -> Result<(), SErr> { self.0.mismatch.set(true); Ok(()) }
	fn serialize_u64(self, v: u64) -> Result<(), SErr> { self.0.scalar(Ev::U64(v)) }
	fn serialize_f32(self, _: f32) -> Result<(), SErr> { self.0.mismatch.set(true); Ok(()) }
	fn serialize_f64(self, _: f64) -> Result<(), SErr> { self.0.mismatch.set(true); Ok(()) }
	fn serialize_char(self, _: char) -> Result<(), SErr> { self.0.mismatch.set(true); Ok(()) }
	fn serialize_str(self, _: &str) -> Result<(), SErr> { self.0.mismatch.set(true); Ok(()) }
	fn serialize_bytes(self, _: &[u8]) -> Result<(), SErr> { self.0.mismatch.set(true); Ok(()) }
	fn serialize_none(self) -> Result<(), SErr> { self.0.mismatch.set(true); Ok(()) }
	fn serialize_some<T: ?Sized + Serialize>(self, _: &T) -> Result<(), SErr> { self.0.mismatch.set(true); Ok(()) }
	fn serialize_unit(self) -> Result<(), SErr> { self.0.scalar(Ev::Unit) }
	fn serialize_unit_struct(self, _: &'static str) -> Result<(), SErr> { self.0.mismatch.set(true); Ok(()) }
	fn serialize_unit_variant(self, _: &'static str, _: u32, _: &'static str) -> Result<(), SErr> { self.0.mismatch.set(true); Ok(()) }
	fn serialize_newtype_struct<T: ?Sized + Serialize>(self, _: &'static str, _: &T) -> Result<(), SErr> { self.0.mismatch.set(true); Ok(()) }
	fn serialize_newtype_variant<T: ?Sized + Serialize>(self, _: &'static str, _: u32, _: &'static str, _: &T) -> Result<(), SErr> { self.0.mismatch.set(true); Ok(()) }
	fn serialize_seq(self, len: Option<usize>) -> Result<MColl<'a>, SErr> {
		self.0.scalar(Ev::Seq(len))?;
		Ok(MColl(self.0, false, true, len, 0))
	}
	fn serialize_tuple(self, _: usize) -> Result<Self::SerializeTuple, SErr> { self.0.mismatch.set(true); Err(SErr::Synthetic) }
	fn serialize_tuple_struct(self, _: &'static str, _: usize) -> Result<Self::SerializeTupleStruct, SErr> { self.0.mismatch.set(true); Err(SErr::Synthetic) }
	fn serialize_tuple_variant(self, _: &'static str, _: u32, _: &'static str, _: usize) -> Result<Self::SerializeTupleVariant, SErr> { self.0.mismatch.set(true); Err(SErr::Synthetic) }
	fn serialize_map(self, len: Option<usize>) -> Result<MColl<'a>, SErr> {
		self.0.scalar(Ev::Map(len))?;
		Ok(MColl(self.0, true, true, len, 0))
	}
	fn serialize_struct(self, _: &'static str, _: usize) -> Result<Self::SerializeStruct, SErr> { self.0.mismatch.set(true); Err(SErr::Synthetic) }
	fn serialize_struct_variant(self, _: &'static str, _: u32, _: &'static str, _: usize) -> Result<Self::SerializeStructVariant, SErr> { self.0.mismatch.set(true); Err(SErr::Synthetic) }
}

/// (world, is_map, next entry is a key, declared length, entries so far)
pub(crate) struct MColl<'a>(&'a World, bool, bool, Option<usize>, usize);

impl<'a> MColl<'a> {
	fn item<T: ?Sized + Serialize>(&mut self, role: Role, v: &T) -> Result<(), SErr> {
		self.0.call()?; // e.g. writing a separator or an indentation
		let saved = self.0.role.get();
		self.0.role.set(role);
		let r = v.serialize(MSer(self.0));
		self.0.role.set(saved);
		r?;
		self.0.call() // e.g. writing a ':' or a newline after the entry
	}
	fn finish(self) -> Result<(), SErr> {
		if self.1 && !self.2 {
			self.0.mismatch.set(true); // a key without a value
		}
		if self.0.mode.get() == 2 && self.3 != Some(self.4) {
			self.0.mismatch.set(true); // a stored value declares its exact length (MessagePack needs it up front)
		}
		self.0.call()?;
		self.0.push(Ev::End, Role::Top);
		Ok(())
	}
}
impl<'a> SerializeSeq for MColl<'a> {
	type Ok = ();
	type Error = SErr;
	fn serialize_element<T: ?Sized + Serialize>(&mut self, v: &T) -> Result<(), SErr> {
		if self.1 {
			self.0.mismatch.set(true);
		}
		self.4 += 1;
		self.item(Role::Elem, v)
	}
	fn end(self) -> Result<(), SErr> {
		self.finish()
	}
}
impl<'a> SerializeMap for MColl<'a> {
	type Ok = ();
	type Error = SErr;
	fn serialize_key<T: ?Sized + Serialize>(&mut self, v: &T) -> Result<(), SErr> {
		if !self.1 || !self.2 {
			self.0.mismatch.set(true); // keys and values must alternate
		}
		self.2 = false;
		self.4 += 1;
		self.item(Role::Key, v)
	}
	fn serialize_value<T: ?Sized + Serialize>(&mut self, v: &T) -> Result<(), SErr> {
		if !self.1 || self.2 {
			self.0.mismatch.set(true);
		}
		self.2 = true;
		self.item(Role::Val, v)
	}
	fn end(self) -> Result<(), SErr> {
		self.finish()
	}
}

// ---------------------------------------------------------------------------------------
// D1b / D2 / D3 / D4
// ---------------------------------------------------------------------------------------

fn run(w: &World) {
	let r = transcode(MSer(w), MDe(w, 0, Role::Top));
	assert!(!w.mismatch.get(), "D: every event reaches the serializer exactly once, in order, with the same type, value, length hint and role (element / key / value)");
	assert!(!w.after_fault.get(), "D: nothing is emitted after the fault");
	match r {
		Ok(()) => {
			assert!(!w.ser_failed.get() && !w.de_failed.get(), "D: a fault is never converted into success");
			assert!(w.n.get() == w.pos.get() && w.mailbox.get().is_none(), "D: everything consumed was forwarded");
			kani::cover!(w.n.get() >= 5 && w.max_depth_seen.get() >= 1, "D Ok with a filled collection");
		}
		Err(Error::Ser(s, d)) => {
			assert!(w.ser_failed.get() && !w.de_failed.get(), "D: Error::Ser only when the serializer failed");
			assert!(matches!(s, SErr::Genuine), "D: the serializer's own error value is returned");
			core::mem::forget(d);
			kani::cover!(w.calls.get() >= 4, "D serializer fault inside a collection");
		}
		Err(Error::De(d)) => {
			assert!(!w.ser_failed.get(), "D: a serializer failure is not reported as a deserializer error");
			assert!(w.de_failed.get(), "D: Error::De only when the deserializer failed");
			assert!(matches!(d, DErr::Genuine), "D: the deserializer's own error value is returned, not the synthetic filler");
			kani::cover!(w.pos.get() >= 3, "D deserializer fault inside a collection");
		}
	}
}

/// D1b: fidelity, no faults (the only deserializer error is the event bound)
#[kani::proof]
#[kani::unwind(8)]
fn d1b_fidelity_structure() {
	let w = World::new(6, 1, true, false, false);
	run(&w);
}

/// D2: attribution with one fault on either side at any position
#[kani::proof]
#[kani::unwind(8)]
fn d2_attribution() {
	let w = World::new(6, 1, false, true, true);
	run(&w);
}

/// D3: as D2 with all of Kani's default checks (memory safety, overflow) on, 4 events
#[kani::proof]
#[kani::unwind(8)]
fn d3_totality() {
	let w = World::new(4, 1, false, true, true);
	run(&w);
}

/// D2b: nesting 2 with three events (e.g. seq > seq > failing element): the smallest shape in which a
/// *collection* child reports a deserializer failure to its parent - the case the nesting-1 harness
/// cannot produce and the depth induction argument needs.
#[kani::proof]
#[kani::unwind(8)]
fn d2b_attribution_nest2_small() {
	let w = World::new(3, 2, false, true, true);
	run(&w);
	kani::cover!(w.max_depth_seen.get() == 2 && w.de_failed.get(), "D2b deserializer fault two levels down");
	kani::cover!(w.max_depth_seen.get() == 2 && w.ser_failed.get(), "D2b serializer fault two levels down");
}

/// D3s: the quick-tier totality variant: all default checks on, 3 events
#[kani::proof]
#[kani::unwind(8)]
fn d3_totality_small() {
	let w = World::new(3, 1, false, true, true);
	run(&w);
}

/// D2c: the cheapest nesting-2 shape: deserializer faults only, three events
/// (collection > collection > failing entry / failing accessor).
#[kani::proof]
#[kani::unwind(8)]
fn d2c_de_fault_nest2() {
	let w = World::new(3, 2, false, false, true);
	run(&w);
	kani::cover!(w.max_depth_seen.get() == 2 && w.de_failed.get(), "D2c deserializer fault two levels down");
}

/// D4: nesting 2 (best effort)
#[kani::proof]
#[kani::unwind(8)]
fn d4_nest2() {
	let w = World::new(4, 2, false, true, true);
	run(&w);
	kani::cover!(w.max_depth_seen.get() == 2, "D4 nesting two reached");
}

// ---------------------------------------------------------------------------------------
// D1a: every scalar kind the transcoder implements, one event, all values
// ---------------------------------------------------------------------------------------

pub(crate) struct ScalarDe { pub kind: u8, pub a: u128, pub s: [u8; 2], pub n: usize, pub via: u8 }
impl<'de> Deserializer<'de> for ScalarDe {
	type Error = DErr;
	fn deserialize_any<V: de::Visitor<'de>>(self, v: V) -> Result<V::Value, DErr> {
		let a = self.a;
		match self.kind {
			0 => v.visit_unit(),
			1 => v.visit_bool(a & 1 == 1),
			2 => v.visit_i8(a as i8),
			3 => v.visit_i16(a as i16),
			4 => v.visit_i32(a as i32),
			5 => v.visit_i64(a as i64),
			6 => v.visit_i128(a as i128),
			7 => v.visit_u8(a as u8),
			8 => v.visit_u16(a as u16),
			9 => v.visit_u32(a as u32),
			10 => v.visit_u64(a as u64),
			11 => v.visit_u128(a),
			12 => v.visit_f32(f32::from_bits(a as u32)),
			13 => v.visit_f64(f64::from_bits(a as u64)),
			14 => v.visit_char(char::from_u32((a as u32) % 0xD800).unwrap()),
			15 => {
				let s: &str = if self.n == 0 { "" } else if self.s[0] < 0x80 { core::str::from_utf8(&self.s[..1]).unwrap() } else { "\u{e9}" };
				match self.via {
					0 => v.visit_str(s),
					1 => v.visit_string(String::from(s)),
					_ => v.visit_borrowed_str(if self.n == 0 { "" } else { "\u{e9}" }),
				}
			}
			_ => match self.via {
				0 => v.visit_bytes(&self.s[..self.n]),
				1 => v.visit_byte_buf(self.s[..self.n].to_vec()),
				_ => v.visit_borrowed_bytes(if self.n == 0 { b"" } else { b"\xc3\xa9" }),
			},
		}
	}
	serde::forward_to_deserialize_any! {
		bool i8 i16 i32 i64 i128 u8 u16 u32 u64 u128 f32 f64 char str string
		bytes byte_buf option unit unit_struct newtype_struct seq tuple
		tuple_struct map struct enum identifier ignored_any
	}
}
pub(crate) struct ScalarSer<'c> { pub kind: u8, pub a: u128, pub s: [u8; 2], pub n: usize, pub hit: &'c Cell<u32> }
macro_rules! exp {
	($self:ident, $k:expr, $cond:expr) => {{
		assert!($self.kind == $k, "D1a: value forwarded with its own type");
		assert!($cond, "D1a: value forwarded unchanged");
		$self.hit.set($self.hit.get() + 1);
		Ok(())
	}};
}
macro_rules! nope {
	($self:ident) => {{
		assert!(false, "D1a: a serializer method the transcoder must not use");
		Err(SErr::Synthetic)
	}};
}
impl<'c> Serializer for ScalarSer<'c> {
	type Ok = ();
	type Error = SErr;
	type SerializeSeq = Impossible<(), SErr>;
	type SerializeTuple = Impossible<(), SErr>;
	type SerializeTupleStruct = Impossible<(), SErr>;
	type SerializeTupleVariant = Impossible<(), SErr>;
	type SerializeMap = Impossible<(), SErr>;
	type SerializeStruct = Impossible<(), SErr>;
	type SerializeStructVariant = Impossible<(), SErr>;
	fn serialize_bool(self, v: bool) -> Result<(), SErr> { exp!(self, 1, v == (self.a & 1 == 1)) }
	fn serialize_i8(self, v: i8) -> Result<(), SErr> { exp!(self, 2, v == self.a as i8) }
	fn serialize_i16(self, v: i16) -> Result<(), SErr> { exp!(self, 3, v == self.a as i16) }
	fn serialize_i32(self, v: i32) -> Result<(), SErr> { exp!(self, 4, v == self.a as i32) }
	fn serialize_i64(self, v: i64) -> Result<(), SErr> { exp!(self, 5, v == self.a as i64) }
	fn serialize_i128(self, v: i128) -> Result<(), SErr> { exp!(self, 6, v == self.a as i128) }
	fn serialize_u8(self, v: u8) -> Result<(), SErr> { exp!(self, 7, v == self.a as u8) }
	fn serialize_u16(self, v: u16) -> Result<(), SErr> { exp!(self, 8, v == self.a as u16) }
	fn serialize_u32(self, v: u32) -> Result<(), SErr> { exp!(self, 9, v == self.a as u32) }
	fn serialize_u64(self, v: u64) -> Result<(), SErr> { exp!(self, 10, v == self.a as u64) }
	fn serialize_u128(self, v: u128) -> Result<(), SErr> { exp!(self, 11, v == self.a) }
	fn serialize_f32(self, v: f32) -> Result<(), SErr> { exp!(self, 12, v.to_bits() == self.a as u32) }
	fn serialize_f64(self, v: f64) -> Result<(), SErr> { exp!(self, 13, v.to_bits() == self.a as u64) }
	fn serialize_char(self, v: char) -> Result<(), SErr> { exp!(self, 14, v as u32 == (self.a as u32) % 0xD800) }
	fn serialize_str(self, v: &str) -> Result<(), SErr> {
		exp!(self, 15, if self.n == 0 { v.is_empty() } else if self.s[0] < 0x80 { v.len() == 1 && v.as_bytes()[0] == self.s[0] } else { v.len() == 2 && v.as_bytes()[0] == 0xc3 && v.as_bytes()[1] == 0xa9 })
	}
	fn serialize_bytes(self, v: &[u8]) -> Result<(), SErr> {
		exp!(self, 16, v.len() == self.n && (self.n < 1 || v[0] == self.s[0]) && (self.n < 2 || v[1] == self.s[1]))
	}
	fn serialize_none(self) -> Result<(), SErr> { nope!(self) }
	fn serialize_some<T: ?Sized + Serialize>(self, _: &T) -> Result<(), SErr> { nope!(self) }
	fn serialize_unit(self) -> Result<(), SErr> { exp!(self, 0, true) }
	fn serialize_unit_struct(self, _: &'static str) -> Result<(), SErr> { nope!(self) }
	fn serialize_unit_variant(self, _: &'static str, _: u32, _: &'static str) -> Result<(), SErr> { nope!(self) }
	fn serialize_newtype_struct<T: ?Sized + Serialize>(self, _: &'static str, _: &T) -> Result<(), SErr> { nope!(self) }
	fn serialize_newtype_variant<T: ?Sized + Serialize>(self, _: &'static str, _: u32, _: &'static str, _: &T) -> Result<(), SErr> { nope!(self) }
	fn serialize_seq(self, _: Option<usize>) -> Result<Self::SerializeSeq, SErr> { nope!(self) }
	fn serialize_tuple(self, _: usize) -> Result<Self::SerializeTuple, SErr> { nope!(self) }
	fn serialize_tuple_struct(self, _: &'static str, _: usize) -> Result<Self::SerializeTupleStruct, SErr> { nope!(self) }
	fn serialize_tuple_variant(self, _: &'static str, _: u32, _: &'static str, _: usize) -> Result<Self::SerializeTupleVariant, SErr> { nope!(self) }
	fn serialize_map(self, _: Option<usize>) -> Result<Self::SerializeMap, SErr> { nope!(self) }
	fn serialize_struct(self, _: &'static str, _: usize) -> Result<Self::SerializeStruct, SErr> { nope!(self) }
	fn serialize_struct_variant(self, _: &'static str, _: u32, _: &'static str, _: usize) -> Result<Self::SerializeStructVariant, SErr> { nope!(self) }
}

#[kani::proof]
#[kani::unwind(5)]
fn d1a_every_scalar_kind() {
	let kind: u8 = kani::any();
	kani::assume(kind <= 16);
	let a: u128 = kani::any();
	let s: [u8; 2] = kani::any();
	let n: usize = kani::any();
	kani::assume(n <= 2);
	let via: u8 = kani::any();
	kani::assume(via <= 1);
	let hit = Cell::new(0u32);
	let r = transcode(ScalarSer { kind, a, s, n, hit: &hit }, ScalarDe { kind, a, s, n, via });
	assert!(r.is_ok(), "D1a: a scalar the serializer accepts translates");
	assert!(hit.get() == 1, "D1a: exactly one serializer call per scalar");
	kani::cover!(kind == 11 && a > u64::MAX as u128, "D1a u128 beyond 64 bits");
	kani::cover!(kind == 13 && (a as u64) == 0x7ff8_0000_0000_0001, "D1a NaN payload kept bit for bit");
	kani::cover!(kind == 16 && n == 2 && via == 1, "D1a owned byte buffer");
	core::mem::forget(r);
}
