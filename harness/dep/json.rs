// Family I (DESIGN.md 5.I): src/json.rs glue against the serde_json model.
use super::*;
include!("common.rs");
use depcommon::{LogW, RecOut};
use serde_json::ghost as g;
use serde_json::xtmodel::{is_blank, PlainError, TokDe};

/// I1j: JSON detection from a slice never fails; invalid UTF-8 and syntax errors mean "no".
#[kani::proof]
#[kani::unwind(6)]
fn i1_json_detect_slice() {
	let buf: [u8; 3] = kani::any();
	let len: usize = kani::any();
	kani::assume(len <= 3);
	let r = input_matches(Ref::Slice(&buf[..len]));
	match &r {
		Ok(m) => {
			// model language: the first non-blank byte decides
			let mut i = 0;
			while i < len && is_blank(buf[i]) {
				i += 1;
			}
			let utf8 = str::from_utf8(&buf[..len]).is_ok();
			assert!(*m == (utf8 && i < len && buf[i] != b'!'), "I1j: detected iff the text starts with a document");
			kani::cover!(*m, "I1j detected");
			kani::cover!(!*m && !utf8, "I1j invalid utf8 skipped");
		}
		Err(_) => assert!(false, "I1j: detection from a slice cannot fail"),
	}
	core::mem::forget(r);
}

/// I5j: the slice document loop: one transcode_value per document, in order; a syntax error
/// or an output failure stops the loop and is returned; Ok only at a clean end.
#[kani::proof]
#[kani::unwind(7)]
fn i5_json_slice_loop() {
	let buf: [u8; 4] = kani::any();
	let len: usize = kani::any();
	kani::assume(len <= 4);
	let data = &buf[..len];
	let mut out = RecOut::new();
	out.fail_at_doc = kani::any();
	let r = transcode(input::Handle::from_slice(data), &mut out);
	// reference: tokens up to the first b'!'
	let utf8 = str::from_utf8(data).is_ok();
	let mut want = [0u8; 4];
	let mut wn = 0;
	let mut bad = false;
	let mut i = 0;
	while i < len && !bad {
		if data[i] == b'!' {
			bad = true;
		} else if !is_blank(data[i]) {
			want[wn] = data[i];
			wn += 1;
		}
		i += 1;
	}
	if !utf8 {
		assert!(r.is_err() && out.n == 0, "I5j: invalid UTF-8 is an error before anything is translated");
	} else {
		let stop = if out.fail_at_doc < wn { out.fail_at_doc } else { wn };
		assert!(out.n == stop, "I5j: exactly the documents before the first failure are handed to the output");
		let mut k = 0;
		while k < 4 {
			if k < out.n {
				assert!(out.toks[k] == want[k] || (want[k] == b'n' || want[k] == b't'), "I5j: documents arrive in input order");
			}
			k += 1;
		}
		assert!(r.is_ok() == (!bad && out.fail_at_doc >= wn), "I5j: Ok exactly when every document translated and the input ended cleanly");
		kani::cover!(r.is_ok() && out.n == 3, "I5j three documents");
		kani::cover!(bad && out.n == 1, "I5j syntax error after one document");
	}
	unsafe { assert!(g::DESERIALIZERS <= 1) };
	core::mem::forget(r);
}

/// I4j: json::Output framing: one line per document; short writes and write faults.
#[kani::proof]
#[kani::unwind(8)]
fn i4_json_output_framing() {
	let mut w = LogW::new();
	w.short = kani::any();
	w.fail_at = kani::any();
	let t1: u8 = kani::any();
	let t2: u8 = kani::any();
	kani::assume(t1 != b'!' && t2 != b'!' && t1 != b'n' && t1 != b't' && t2 != b'n' && t2 != b't');
	let mut out = Output::new(&mut w);
	let r1 = crate::Output::transcode_from(&mut out, TokDe::<PlainError>::new(t1));
	let ok1 = r1.is_ok();
	core::mem::forget(r1);
	let mut ok2 = false;
	if ok1 {
		// the second document goes through the other entry point
		let v = crate::transcode::Value::U8(t2);
		let r2 = crate::Output::transcode_value(&mut out, &v);
		ok2 = r2.is_ok();
		core::mem::forget(r2);
	}
	core::mem::forget(out);
	let want = [t1, b'\n', t2, b'\n'];
	let mut j = 0;
	while j < 4 {
		if j < w.n {
			assert!(w.buf[j] == want[j], "I4: JSON output is one line per document, in order");
		}
		j += 1;
	}
	assert!(w.n <= 4);
	if ok1 && ok2 {
		assert!(w.n == 4 && !w.failed, "I4: success means the writer accepted every byte including the newline");
		kani::cover!(w.short, "I4 json short writes");
	} else {
		assert!(w.failed, "I4: failure only when the writer failed");
		kani::cover!(w.n == 1, "I4 json newline write fails");
	}
}
