// Family I3 (DESIGN.md 5.I): src/toml.rs against the toml model.
use super::*;
include!("common.rs");
use ::toml::model as tm;
use depcommon::LogW;
use std::cell::Cell;

#[derive(Debug)]
struct TErr;
impl fmt::Display for TErr {
	fn fmt(&self, _: &mut fmt::Formatter) -> fmt::Result {
		Ok(())
	}
}
impl error::Error for TErr {}
impl de::Error for TErr {
	fn custom<T: fmt::Display>(_: T) -> Self {
		TErr
	}
}

/// A document with a symbolic root (null, bool, int, seq, map) and up to 2 entries which may be null.
#[derive(Clone, Copy)]
struct Doc {
	root: u8,       // 0 null 1 bool 2 int 3 seq 4 map 5 deserializer error
	entries: u8,    // for seq/map
	null_at: u8,    // entry index holding a null (>= entries: none)
}
struct DocDe<'a> {
	d: Doc,
	pulled: &'a Cell<u32>,
}
struct Inner(bool);
impl<'de> de::Deserializer<'de> for Inner {
	type Error = TErr;
	fn deserialize_any<V: de::Visitor<'de>>(self, v: V) -> Result<V::Value, TErr> {
		if self.0 { v.visit_unit() } else { v.visit_i64(7) }
	}
	serde::forward_to_deserialize_any! {
		bool i8 i16 i32 i64 i128 u8 u16 u32 u64 u128 f32 f64 char str string
		bytes byte_buf option unit unit_struct newtype_struct seq tuple
		tuple_struct map struct enum identifier ignored_any
	}
}
struct KeyDe;
impl<'de> de::Deserializer<'de> for KeyDe {
	type Error = TErr;
	fn deserialize_any<V: de::Visitor<'de>>(self, v: V) -> Result<V::Value, TErr> {
		v.visit_str("k")
	}
	serde::forward_to_deserialize_any! {
		bool i8 i16 i32 i64 i128 u8 u16 u32 u64 u128 f32 f64 char str string
		bytes byte_buf option unit unit_struct newtype_struct seq tuple
		tuple_struct map struct enum identifier ignored_any
	}
}
struct Acc {
	d: Doc,
	i: u8,
}
impl<'de> de::SeqAccess<'de> for Acc {
	type Error = TErr;
	fn next_element_seed<T: de::DeserializeSeed<'de>>(&mut self, seed: T) -> Result<Option<T::Value>, TErr> {
		if self.i >= self.d.entries {
			return Ok(None);
		}
		self.i += 1;
		seed.deserialize(Inner(self.i - 1 == self.d.null_at)).map(Some)
	}
}
impl<'de> de::MapAccess<'de> for Acc {
	type Error = TErr;
	fn next_key_seed<K: de::DeserializeSeed<'de>>(&mut self, seed: K) -> Result<Option<K::Value>, TErr> {
		if self.i >= self.d.entries {
			return Ok(None);
		}
		self.i += 1;
		seed.deserialize(KeyDe).map(Some)
	}
	fn next_value_seed<V: de::DeserializeSeed<'de>>(&mut self, seed: V) -> Result<V::Value, TErr> {
		seed.deserialize(Inner(self.i - 1 == self.d.null_at))
	}
}
impl<'de, 'a> de::Deserializer<'de> for DocDe<'a> {
	type Error = TErr;
	fn deserialize_any<V: de::Visitor<'de>>(self, v: V) -> Result<V::Value, TErr> {
		self.pulled.set(self.pulled.get() + 1);
		match self.d.root {
			0 => v.visit_unit(),
			1 => v.visit_bool(true),
			2 => v.visit_i64(1),
			3 => v.visit_seq(Acc { d: self.d, i: 0 }),
			4 => v.visit_map(Acc { d: self.d, i: 0 }),
			_ => Err(TErr),
		}
	}
	serde::forward_to_deserialize_any! {
		bool i8 i16 i32 i64 i128 u8 u16 u32 u64 u128 f32 f64 char str string
		bytes byte_buf option unit unit_struct newtype_struct seq tuple
		tuple_struct map struct enum identifier ignored_any
	}
}
fn any_doc() -> Doc {
	let d = Doc { root: kani::any(), entries: kani::any(), null_at: kani::any() };
	kani::assume(d.root <= 5 && d.entries <= 2);
	d
}
fn has_null(d: &Doc) -> bool {
	d.root == 0 || ((d.root == 3 || d.root == 4) && d.null_at < d.entries)
}
fn as_value(d: &Doc) -> crate::transcode::Value<'static> {
	use crate::transcode::Value as V;
	let inner = |k: u8| if k == d.null_at { V::Unit } else { V::I64(7) };
	match d.root {
		0 => V::Unit,
		1 => V::Bool(true),
		2 => V::I64(1),
		3 => {
			let mut v = Vec::new();
			let mut k = 0;
			while k < d.entries {
				v.push(inner(k));
				k += 1;
			}
			V::Seq(v)
		}
		_ => {
			let mut v = Vec::new();
			let mut k = 0;
			while k < d.entries {
				v.push((V::String(Cow::Borrowed("k")), inner(k)));
				k += 1;
			}
			V::Map(v)
		}
	}
}

fn run_one<'a>(out: &mut Output<&'a mut LogW>, d: &Doc, via_value: bool, pulled: &Cell<u32>) -> bool {
	let r = if via_value {
		let v = as_value(d);
		let r = crate::Output::transcode_value(out, &v);
		core::mem::forget(v);
		r
	} else {
		crate::Output::transcode_from(out, DocDe { d: *d, pulled })
	};
	let ok = r.is_ok();
	core::mem::forget(r);
	ok
}

/// I3a: the FIRST document, every root type, null at any entry, either entry point, writer fault anywhere.
#[kani::proof]
#[kani::unwind(5)]
fn i3_toml_output_first() {
	let mut w = LogW::new();
	w.fail_at = kani::any();
	let d1 = any_doc();
	let via1: bool = kani::any();
	kani::assume(!via1 || d1.root != 5);
	let pulled1 = Cell::new(0u32);
	let mut out = Output::new(&mut w);
	let ok1 = run_one(&mut out, &d1, via1, &pulled1);
	assert!(out.used, "I3: the output is marked used by the first document, whatever its fate");
	let (n1, writes1, rendered1) = (out.w.n, out.w.writes, unsafe { tm::RENDERED });
	let good1 = d1.root == 4 && !has_null(&d1);
	if !good1 {
		assert!(!ok1 && n1 == 0 && writes1 == 0, "I3: a root that is not a table, a null anywhere, or a deserializer error is refused and nothing is written");
		assert!(rendered1 == 0, "I3: nothing is rendered for a refused document");
		kani::cover!(d1.root == 4 && d1.null_at == 1, "I3 null in the second entry refused");
		kani::cover!(d1.root == 3, "I3 array root refused");
	} else if ok1 {
		assert!(n1 == d1.entries as usize && !out.w.failed, "I3: exactly the rendering of the one document is written");
		kani::cover!(d1.entries == 0, "I3 empty table writes nothing and succeeds");
		kani::cover!(d1.entries == 2, "I3 table written");
	} else {
		assert!(out.w.failed || rendered1 == 1, "I3: a valid table fails only for a render or write error");
	}
	core::mem::forget(out);
}

/// I3b: ANY second document or input - after a first one of any fate, including an EMPTY table that
/// wrote zero bytes - is refused before anything is pulled from it, and nothing more is written.
#[kani::proof]
#[kani::unwind(5)]
fn i3_toml_output_second() {
	let mut w = LogW::new();
	// first document: empty table, one-entry table, or a refused scalar root
	let first = Doc { root: kani::any(), entries: kani::any(), null_at: 9 };
	kani::assume((first.root == 4 && first.entries <= 1) || first.root == 2);
	let d2 = any_doc();
	let via2: bool = kani::any();
	kani::assume(!via2 || d2.root != 5);
	let pulled1 = Cell::new(0u32);
	let pulled2 = Cell::new(0u32);
	let mut out = Output::new(&mut w);
	let _ok1 = run_one(&mut out, &first, false, &pulled1);
	let (n1, writes1, pulls_model1) = (out.w.n, out.w.writes, unsafe { tm::PULLED });
	let ok2 = run_one(&mut out, &d2, via2, &pulled2);
	assert!(!ok2, "I3: any second document or second input is refused");
	assert!(pulled2.get() == 0 && unsafe { tm::PULLED } == pulls_model1, "I3: the second document is refused before anything is pulled from its deserializer / value");
	assert!(out.w.n == n1 && out.w.writes == writes1, "I3: nothing is written for the refused second document");
	kani::cover!(first.root == 4 && first.entries == 0 && d2.root == 4 && !has_null(&d2), "I3 valid table after an empty table is refused");
	core::mem::forget(out);
}

/// I3t: toml::transcode (input side): the whole input becomes ONE document handed to the output once.
#[kani::proof]
#[kani::unwind(7)]
fn i3_toml_transcode_single_document() {
	let buf: [u8; 3] = kani::any();
	let len: usize = kani::any();
	kani::assume(len <= 3);
	let data = &buf[..len];
	let mut out = depcommon::RecOut::new();
	let r = transcode(input::Handle::from_slice(data), &mut out);
	let utf8 = str::from_utf8(data).is_ok();
	let mut bad = false;
	let mut entries = 0u8;
	let mut i = 0;
	while i < len {
		if data[i] == b'!' {
			bad = true;
		}
		if data[i] != b' ' && data[i] != b'\n' {
			entries += 1;
		}
		i += 1;
	}
	if !utf8 || bad {
		assert!(r.is_err() && out.n == 0, "I3t: invalid UTF-8 or a syntax error translates nothing");
	} else {
		assert!(r.is_ok() && out.n == 1 && out.toks[0] == b'0' + entries, "I3t: one document with every entry");
		kani::cover!(entries == 3, "I3t three entries");
	}
	core::mem::forget(r);
}
