// Shared by the dependency-model harnesses (included with include!).
#[allow(dead_code)]
pub(crate) mod depcommon {
	use std::io;

	/// Recording writer: keeps the bytes it ACCEPTED. `short` makes every write accept a
	/// non-deterministic 1..=len bytes; `fail_at` makes it fail once that many bytes were accepted.
	pub(crate) struct LogW {
		pub buf: [u8; 16],
		pub n: usize,
		pub short: bool,
		pub fail_at: usize,
		pub failed: bool,
		pub writes: usize,
		pub flushes: usize,
	}
	impl LogW {
		pub(crate) fn new() -> LogW {
			LogW { buf: [0; 16], n: 0, short: false, fail_at: usize::MAX, failed: false, writes: 0, flushes: 0 }
		}
	}
	impl io::Write for LogW {
		fn write(&mut self, b: &[u8]) -> io::Result<usize> {
			self.writes += 1;
			if b.is_empty() {
				return Ok(0);
			}
			if self.n >= self.fail_at {
				self.failed = true;
				return Err(io::Error::from(io::ErrorKind::Other));
			}
			let mut k = b.len();
			if self.short {
				k = kani::any();
				kani::assume(k >= 1 && k <= b.len());
			}
			if self.fail_at - self.n < k {
				k = self.fail_at - self.n;
			}
			let mut i = 0;
			while i < k {
				if self.n < 16 {
					self.buf[self.n] = b[i];
				}
				self.n += 1;
				i += 1;
			}
			Ok(k)
		}
		fn flush(&mut self) -> io::Result<()> {
			self.flushes += 1;
			Ok(())
		}
		/// std's formatting machinery is far too expensive for CBMC. xt's Outputs only format
		/// literal text (`writeln!(w)`, `writeln!(w, "---")`), for which the documented behaviour of
		/// write_fmt is write_all of that text; anything else is outside these harnesses.
		fn write_fmt(&mut self, args: std::fmt::Arguments<'_>) -> io::Result<()> {
			match args.as_str() {
				Some(s) => self.write_all(s.as_bytes()),
				None => {
					kani::assume(false);
					Ok(())
				}
			}
		}
	}

	/// Output that records which token each document carried (no serializer involved).
	pub(crate) struct RecOut {
		pub toks: [u8; 4],
		pub n: usize,
		pub fail_at_doc: usize,
		pub de_errors: usize,
	}
	impl RecOut {
		pub(crate) fn new() -> RecOut {
			RecOut { toks: [0; 4], n: 0, fail_at_doc: usize::MAX, de_errors: 0 }
		}
	}
	struct TokVisitor;
	impl<'de> serde::de::Visitor<'de> for TokVisitor {
		type Value = u8;
		fn expecting(&self, f: &mut std::fmt::Formatter) -> std::fmt::Result {
			f.write_str("a token")
		}
		fn visit_u8<E>(self, v: u8) -> Result<u8, E> {
			Ok(v)
		}
		fn visit_unit<E>(self) -> Result<u8, E> {
			Ok(b'n')
		}
		fn visit_bool<E>(self, _: bool) -> Result<u8, E> {
			Ok(b't')
		}
		fn visit_map<A: serde::de::MapAccess<'de>>(self, mut a: A) -> Result<u8, A::Error> {
			let mut n = 0u8;
			while let Some(_k) = a.next_key::<serde::de::IgnoredAny>()? {
				let _v: serde::de::IgnoredAny = a.next_value()?;
				n += 1;
			}
			Ok(b'0' + n)
		}
	}
	impl crate::Output for &mut RecOut {
		fn transcode_from<'de, D, E>(&mut self, de: D) -> crate::Result<()>
		where
			D: serde::de::Deserializer<'de, Error = E>,
			E: serde::de::Error + Send + Sync + 'static,
		{
			if self.n >= self.fail_at_doc {
				return Err(crate::Error::from(io::Error::from(io::ErrorKind::Other)));
			}
			match de.deserialize_any(TokVisitor) {
				Ok(t) => {
					if self.n < 4 {
						self.toks[self.n] = t;
					}
					self.n += 1;
					Ok(())
				}
				Err(e) => {
					self.de_errors += 1;
					Err(crate::Error::from(e))
				}
			}
		}
		fn transcode_value<S: serde::ser::Serialize>(&mut self, v: S) -> crate::Result<()> {
			if self.n >= self.fail_at_doc {
				return Err(crate::Error::from(io::Error::from(io::ErrorKind::Other)));
			}
			// a stored value is re-serialized into a one-byte token buffer
			let mut w = LogW::new();
			let mut s = serde_json::Serializer::new(&mut w);
			match v.serialize(&mut s) {
				Ok(()) => {
					if self.n < 4 {
						self.toks[self.n] = w.buf[0];
					}
					self.n += 1;
					Ok(())
				}
				Err(e) => Err(crate::Error::from(e)),
			}
		}
		fn flush(&mut self) -> io::Result<()> {
			Ok(())
		}
	}
}
