// Family I / A5 (DESIGN.md 5.I, 5.A): src/msgpack.rs glue against the rmp-serde model.
use super::*;
include!("common.rs");
use depcommon::{LogW, RecOut};
use rmp_serde::ghost as g;
use rmp_serde::xtmodel::{PlainError, TokDe};

fn is_collection_marker(b: u8) -> bool {
	(0x80..=0x9f).contains(&b) || (0xdc..=0xdf).contains(&b)
}

/// I1: detection from a slice can never fail (a slice cannot report an I/O error): running out
/// of input or meeting a syntax error means "not MessagePack".
#[kani::proof]
#[kani::unwind(6)]
fn i1_msgpack_detect_slice() {
	let buf: [u8; 3] = kani::any();
	let len: usize = kani::any();
	kani::assume(len <= 3);
	let r = input_matches(Ref::Slice(&buf[..len]));
	match &r {
		Ok(m) => {
			if *m {
				assert!(len >= 1 && is_collection_marker(buf[0]), "I1: only inputs starting with a collection marker are detected");
				kani::cover!(true, "I1 detected");
			}
			if len == 0 || !is_collection_marker(buf[0]) {
				assert!(!*m && unsafe { g::DESERIALIZERS } == 0, "I1: the trial is not run unless the first byte is a collection marker");
			}
			kani::cover!(!*m && len >= 1 && is_collection_marker(buf[0]), "I1 candidate skipped");
		}
		Err(_) => assert!(false, "I1: detection fails only if the input source itself reported an I/O error"),
	}
	unsafe {
		assert!(!g::USED_WITHOUT_DEPTH, "I1: the depth limit is set before the deserializer is used");
		assert!(g::DESERIALIZERS == 0 || g::DEPTH_SEEN == DEPTH_LIMIT, "I1: the trial uses DEPTH_LIMIT");
	}
	core::mem::forget(r);
}

// --------------------------------------------------------------------------------------------
// A5: the slice splitting loop
// --------------------------------------------------------------------------------------------

static mut NVS_CALLS: usize = 0;
static mut NVS_BAD_DEPTH: bool = false;
static mut NVS_FAILED: bool = false;
static mut NVS_SIZES: [usize; 4] = [0; 4];

fn nvs_contract(input: &[u8], d: usize) -> Result<usize, ReadSizeError> {
	unsafe {
		if d != DEPTH_LIMIT || input.is_empty() {
			NVS_BAD_DEPTH = true;
		}
		if kani::any() {
			let n: usize = kani::any();
			kani::assume(n >= 1 && n <= input.len());
			if NVS_CALLS < 4 {
				NVS_SIZES[NVS_CALLS] = n;
			}
			NVS_CALLS += 1;
			Ok(n)
		} else {
			NVS_FAILED = true;
			Err(ReadSizeError::Truncated)
		}
	}
}

#[kani::proof]
#[kani::stub(next_value_size, nvs_contract)]
#[kani::unwind(6)]
fn a5_split_loop() {
	let buf: [u8; 3] = kani::any();
	let len: usize = kani::any();
	kani::assume(len <= 3);
	let data = &buf[..len];
	let mut out = RecOut::new();
	out.fail_at_doc = kani::any();
	let r = transcode(input::Handle::from_slice(data), &mut out);
	unsafe {
		assert!(!NVS_BAD_DEPTH, "A5: the size calculator is called on a non-empty rest with DEPTH_LIMIT");
		assert!(!g::USED_WITHOUT_DEPTH && (g::DESERIALIZERS == 0 || g::DEPTH_SEEN == DEPTH_LIMIT), "A5: every deserializer gets set_max_depth(DEPTH_LIMIT) before use");
		// the chunks handed to the deserializers are consecutive, non-empty and start at byte 0
		let mut off = 0usize;
		let mut k = 0;
		while k < 4 {
			if k < g::NTEXTS {
				assert!(g::TEXT_PTRS[k] == data.as_ptr() as usize + off && g::TEXT_LENS[k] == NVS_SIZES[k], "A5: document k is exactly the next value's bytes");
				off += g::TEXT_LENS[k];
			}
			k += 1;
		}
		assert!(g::NTEXTS <= NVS_CALLS && NVS_CALLS <= g::NTEXTS + 1);
		match &r {
			Ok(()) => {
				assert!(!NVS_FAILED && out.de_errors == 0 && out.n < out.fail_at_doc.saturating_add(1), "A5: success only without any failure");
				assert!(off == len && out.n == g::NTEXTS, "A5: success only when the chunks cover the whole input, one document each, in order");
				kani::cover!(out.n == 3, "A5 three documents");
			}
			Err(_) => {
				assert!(NVS_FAILED || out.de_errors == 1 || out.n >= out.fail_at_doc, "A5: Err only when the sizer, the deserializer or the output failed");
				kani::cover!(NVS_FAILED && out.n == 1, "A5 size error after one document");
			}
		}
	}
	core::mem::forget(r);
}

// --------------------------------------------------------------------------------------------
// I4m: msgpack::Output framing (back-to-back values), short writes and write faults
// --------------------------------------------------------------------------------------------

#[kani::proof]
#[kani::unwind(8)]
fn i4_msgpack_output_framing() {
	let mut w = LogW::new();
	w.short = kani::any();
	w.fail_at = kani::any();
	let t1: u8 = kani::any();
	let t2: u8 = kani::any();
	kani::assume(t1 != b'!' && t2 != b'!' && t1 != b'n' && t1 != b't' && t2 != b'n' && t2 != b't');
	let mut out = Output::new(&mut w);
	let r1 = crate::Output::transcode_from(&mut out, TokDe::<PlainError>::new(t1));
	let ok1 = r1.is_ok();
	core::mem::forget(r1);
	let mut ok2 = false;
	if ok1 {
		let r2 = crate::Output::transcode_from(&mut out, TokDe::<PlainError>::new(t2));
		ok2 = r2.is_ok();
		core::mem::forget(r2);
	}
	core::mem::forget(out);
	let want = [t1, t2];
	let mut j = 0;
	while j < 2 {
		if j < w.n {
			assert!(w.buf[j] == want[j], "I4: MessagePack documents are written back to back, in order");
		}
		j += 1;
	}
	assert!(w.n <= 2);
	if ok1 && ok2 {
		assert!(w.n == 2 && !w.failed, "I4: success means every byte was accepted by the writer");
		kani::cover!(w.short, "I4 msgpack short writes");
	} else {
		assert!(w.failed, "I4: failure only when the writer failed");
	}
}
