// Family I (DESIGN.md 5.I): src/yaml.rs glue against the serde_yaml model.
use super::*;
include!("common.rs");
use depcommon::{LogW, RecOut};
use serde_yaml::ghost as g;
use serde_yaml::xtmodel::{is_blank, PlainError, TokDe};

static mut SLOW: usize = 0;
fn stub_transcode_reader<R: BufRead, O: crate::Output>(_input: R, _output: O) -> crate::Result<()> {
	unsafe { SLOW += 1 };
	Ok(())
}

/// I2: routing of slice input. Exactly one route is taken; the raw bytes are handed to the
/// parser as UTF-8 text only if the stream IS UTF-8 by the YAML rules (Encoding::detect) -
/// otherwise a slice would be parsed differently from the same bytes read through a reader,
/// which always go through the re-encoder.
#[kani::proof]
#[kani::stub(transcode_reader, stub_transcode_reader)]
#[kani::unwind(8)]
fn i2_yaml_routing() {
	let buf: [u8; 4] = kani::any();
	let len: usize = kani::any();
	kani::assume(len <= 4);
	let data = &buf[..len];
	let mut out = RecOut::new();
	let r = transcode(input::Handle::from_slice(data), &mut out);
	let fast = unsafe { g::DESERIALIZERS == 1 && SLOW == 0 };
	let slow = unsafe { g::DESERIALIZERS == 0 && SLOW == 1 };
	assert!(fast || slow, "I2: exactly one of the two routes is taken");
	if fast {
		assert!(matches!(Encoding::detect(data), Encoding::Utf8), "I2: the raw-bytes fast path is only for streams that are UTF-8 by the YAML encoding rules");
		unsafe {
			assert!(g::TEXT_LENS[0] == len && g::TEXT_PTRS[0] == data.as_ptr() as usize, "I2: the parser gets the whole input");
		}
		kani::cover!(len == 4, "I2 fast path");
	} else {
		kani::cover!(str::from_utf8(data).is_ok(), "I2 re-encoding route for a valid-UTF-8 slice");
		kani::cover!(str::from_utf8(data).is_err(), "I2 re-encoding route for invalid UTF-8");
	}
	core::mem::forget(r);
}

/// I5y: the fast-path document loop: one transcode_from per document in order, errors stop it.
#[kani::proof]
#[kani::unwind(7)]
fn i5_yaml_slice_loop() {
	let buf: [u8; 3] = kani::any();
	let len: usize = kani::any();
	kani::assume(len <= 3);
	kani::assume(buf[0] != 0 && buf[1] != 0 && buf[2] != 0 && buf[0] < 0x80 && buf[1] < 0x80 && buf[2] < 0x80); // ASCII, UTF-8 by detection
	let data = &buf[..len];
	// (a stream without any document is the subject of i5_yaml_docless_slice)
	kani::assume((len > 0 && !is_blank(buf[0])) || (len > 1 && !is_blank(buf[1])) || (len > 2 && !is_blank(buf[2])));
	let mut out = RecOut::new();
	out.fail_at_doc = kani::any();
	let r = transcode(input::Handle::from_slice(data), &mut out);
	let mut want = [0u8; 4];
	let mut wn = 0;
	let mut bad_at = usize::MAX;
	let mut i = 0;
	while i < len {
		if !is_blank(data[i]) {
			if data[i] == b'!' && bad_at == usize::MAX {
				bad_at = wn;
			}
			want[wn] = data[i];
			wn += 1;
		}
		i += 1;
	}
	let first_fail = if bad_at < out.fail_at_doc { bad_at } else { out.fail_at_doc };
	let stop = if first_fail < wn { first_fail } else { wn };
	assert!(out.n == stop, "I5y: exactly the documents before the first failure reach the output");
	let mut k = 0;
	while k < 3 {
		if k < out.n {
			assert!(out.toks[k] == want[k] || want[k] == b'n' || want[k] == b't', "I5y: in input order");
		}
		k += 1;
	}
	assert!(r.is_ok() == (first_fail >= wn), "I5y: Ok exactly when every document translated");
	kani::cover!(r.is_ok() && out.n == 3, "I5y three documents");
	core::mem::forget(r);
}

/// I5v: a YAML stream that contains no document at all (blank lines, comments) from a SLICE. The same stream from a
/// reader goes through the chunker, which yields no document (K9: STREAM-END without a pending document is None), so
/// transcode_reader succeeds without ever calling the output (K7). C02 demands the same verdict and output from the
/// slice, so the fast path must not hand the output anything either - in particular not the void document that
/// serde_yaml's iterator produces for a document-less stream, which the streaming transcoder refuses (its visitor has
/// no visit_none; the recording output used here refuses it in the same way).
#[kani::proof]
#[kani::stub(transcode_reader, stub_transcode_reader)]
#[kani::unwind(8)]
fn i5_yaml_docless_slice() {
	let buf: [u8; 3] = kani::any();
	let len: usize = kani::any();
	kani::assume(len <= 3);
	kani::assume(is_blank(buf[0]) && is_blank(buf[1]) && is_blank(buf[2]));
	let data = &buf[..len];
	let mut out = RecOut::new();
	let r = transcode(input::Handle::from_slice(data), &mut out);
	let ok = r.is_ok();
	core::mem::forget(r);
	assert!(unsafe { SLOW == 0 }, "I5v: blank ASCII is UTF-8, the fast path is taken");
	assert!(ok && out.n == 0 && out.de_errors == 0, "I5v: a document-less YAML stream from a slice translates like the same stream from a reader: success, the output is never called");
	kani::cover!(len == 0, "I5v empty input");
	kani::cover!(len == 3, "I5v three blank bytes");
}

/// I4y: yaml::Output framing: "---\n" before every document; short writes; write faults.
#[kani::proof]
#[kani::unwind(12)]
fn i4_yaml_output_framing() {
	let mut w = LogW::new();
	w.short = kani::any();
	w.fail_at = kani::any();
	let t1: u8 = kani::any();
	let t2: u8 = kani::any();
	kani::assume(t1 != b'!' && t2 != b'!' && t1 != b'n' && t1 != b't' && t2 != b'n' && t2 != b't');
	let mut out = Output::new(&mut w);
	let r1 = crate::Output::transcode_from(&mut out, TokDe::<PlainError>::new(t1));
	let ok1 = r1.is_ok();
	core::mem::forget(r1);
	let mut ok2 = false;
	if ok1 {
		let v = crate::transcode::Value::U8(t2);
		let r2 = crate::Output::transcode_value(&mut out, &v);
		ok2 = r2.is_ok();
		core::mem::forget(r2);
	}
	core::mem::forget(out);
	let want = [b'-', b'-', b'-', b'\n', t1, b'\n', b'-', b'-', b'-', b'\n', t2, b'\n'];
	let mut j = 0;
	while j < 12 {
		if j < w.n {
			assert!(w.buf[j] == want[j], "I4: every YAML document is introduced by its own '---' line, in order");
		}
		j += 1;
	}
	assert!(w.n <= 12);
	if ok1 && ok2 {
		assert!(w.n == 12 && !w.failed, "I4: success means the writer accepted every byte");
		kani::cover!(w.short, "I4 yaml short writes");
	} else {
		assert!(w.failed, "I4: failure only when the writer failed");
		kani::cover!(w.n == 2, "I4 yaml marker write fails midway");
	}
}
