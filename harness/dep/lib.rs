// Family F2 / I4 (DESIGN.md 5.F, 5.I): Translator dispatch and multi-call output, with the
// real <format>::transcode functions compiled against the dependency models.
use super::*;
include!("common.rs");
use depcommon::LogW;
use serde_json::ghost as g;

static mut DETECT_CALLS: u32 = 0;
static mut DETECT_PLAN: u8 = 0; // 0 None, 1..4 Some(format), 5 Err

fn code_fmt(c: u8) -> Format {
	match c {
		1 => Format::Msgpack,
		2 => Format::Json,
		3 => Format::Yaml,
		_ => Format::Toml,
	}
}

fn detect_stub(_input: &mut input::Handle) -> io::Result<Option<Format>> {
	unsafe {
		DETECT_CALLS += 1;
		match DETECT_PLAN {
			0 => Ok(None),
			5 => Err(io::Error::from(io::ErrorKind::Other)),
			c => Ok(Some(code_fmt(c))),
		}
	}
}

/// F2: a named format skips detection and runs exactly that format's parser; otherwise detection
/// runs once and its answer is used exactly as if it had been named; no answer or a detection
/// error => Err and nothing is parsed or written. One harness per format K (concrete, so that the
/// solver only has to look at one transcode path); whether K is named or detected stays symbolic.
fn f2_body(k: u8) {
	let data = [b'a'];
	let named: u8 = if kani::any() { k } else { 0 };
	unsafe {
		DETECT_PLAN = match kani::any::<u8>() % 3 {
			0 => 0,
			1 => 5,
			_ => k,
		};
	}
	let mut w = LogW::new();
	let mut t = Translator::new(&mut w, Format::Json);
	let from = if named == 0 { None } else { Some(code_fmt(named)) };
	let r = t.translate_slice(&data, from);
	core::mem::forget(t);
	unsafe {
		let used = if named != 0 {
			assert!(DETECT_CALLS == 0, "F2: detection is not run when a format is named");
			named
		} else {
			assert!(DETECT_CALLS == 1, "F2: detection runs exactly once");
			DETECT_PLAN
		};
		if used == 0 || used == 5 {
			assert!(r.is_err() && g::NPARSERS == 0 && w.n == 0, "F2: undetectable input / detection error: Err, nothing parsed, nothing written");
			kani::cover!(used == 0, "F2 unable to detect");
		} else {
			assert!(g::NPARSERS == 1 && g::PARSERS[0] == used, "F2: exactly the selected format's parser runs, exactly as if it had been named");
			kani::cover!(named == 0 && used == k, "F2 detected format dispatched");
			kani::cover!(named == k, "F2 named format dispatched");
		}
	}
	core::mem::forget(r);
}

#[kani::proof]
#[kani::stub(crate::detect::detect_format, detect_stub)]
#[kani::unwind(7)]
fn f2_dispatch_msgpack() {
	f2_body(1);
}

#[kani::proof]
#[kani::stub(crate::detect::detect_format, detect_stub)]
#[kani::unwind(7)]
fn f2_dispatch_json() {
	f2_body(2);
}

#[kani::proof]
#[kani::stub(crate::detect::detect_format, detect_stub)]
#[kani::unwind(7)]
fn f2_dispatch_yaml() {
	f2_body(3);
}

#[kani::proof]
#[kani::stub(crate::detect::detect_format, detect_stub)]
#[kani::unwind(7)]
fn f2_dispatch_toml() {
	f2_body(4);
}

/// I4t: one Translator used for two inputs in different formats appends to the same writer
/// in call order (JSON target): first input two documents, second input one.
#[kani::proof]
#[kani::unwind(10)]
fn i4_translator_two_inputs() {
	let a: u8 = kani::any();
	let b: u8 = kani::any();
	let c: u8 = kani::any();
	let ok = |x: u8| x > b' ' && x < 0x7f && x != b'!' && x != b'n' && x != b't';
	kani::assume(ok(a) && ok(b) && ok(c));
	let first = [a, b' ', b];
	let second = [c];
	let f1 = Format::Json;
	let f2 = code_fmt(kani::any::<u8>() % 2 + 2); // JSON or YAML
	let mut w = LogW::new();
	let mut t = Translator::new(&mut w, Format::Json);
	let r1 = t.translate_slice(&first, Some(f1));
	assert!(r1.is_ok());
	let r2 = t.translate_slice(&second, Some(f2));
	assert!(r2.is_ok());
	let fl = t.flush();
	assert!(fl.is_ok());
	core::mem::forget(t);
	let want = [a, b'\n', b, b'\n', c, b'\n'];
	assert!(w.n == 6 && w.flushes == 1, "I4t: three documents, one shared writer, flush reaches it");
	kani::cover!(true, "I4t two inputs translated");
	let mut j = 0;
	while j < 6 {
		assert!(w.buf[j] == want[j], "I4t: output is the ordered concatenation of the per-document translations");
		j += 1;
	}
	core::mem::forget(r1);
	core::mem::forget(r2);
}
