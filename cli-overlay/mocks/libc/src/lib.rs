#![allow(static_mut_refs, non_camel_case_types)]
use mstd::ghost::G;
pub const SIGPIPE: i32 = 13;
pub const SIG_DFL: usize = 0;
pub unsafe fn signal(sig: i32, handler: usize) -> usize {
	if sig == SIGPIPE && handler == SIG_DFL { unsafe { G.sigpipe_dfl = true; } }
	0
}
pub unsafe fn raise(sig: i32) -> i32 {
	if sig == SIGPIPE && unsafe { G.sigpipe_dfl } { mstd::ghost::terminate(1000 + sig) }
	0
}
