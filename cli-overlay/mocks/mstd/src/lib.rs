//! Environment model standing in for `std` in the CLI sources (main.rs, bail.rs, pipecheck.rs).
#![allow(static_mut_refs)]
pub use std::{borrow, fmt, path};

pub fn mem_forget<T>(t: T) {
	std::mem::forget(t)
}

pub mod ghost {
	#[derive(Clone, Copy, PartialEq, Eq)]
	pub enum Kind { Stdin, File, Mmap }
	#[derive(Clone, Copy)]
	pub struct Call { pub kind: Kind, pub from: u8 /* 0 none, 1..4 */, pub ok: bool, pub wrote: usize }
	pub struct Ghost {
		pub argv_invalid_seen: bool,
		pub is_tty: bool,
		pub exit_code: i32,          // -1: not exited; 1000+sig: killed by signal
		pub at_exit: Option<fn(i32)>,
		pub stdout_dev: usize,       // bytes the stdout device has accepted
		pub stdout_fail_at: usize,   // device fails once this many bytes were accepted
		pub stdout_fail_pipe: bool,  // ... with EPIPE (else ENOSPC-like)
		pub stdout_failed: bool,
		pub stderr_writes: usize,
		pub sigpipe_dfl: bool,
		pub calls: [Call; 3],
		pub ncalls: usize,
		pub flushes_after_call: [bool; 3],
		pub produced_ok: usize,      // bytes written by translate calls that returned Ok
		pub stdin_opens: usize,
	}
	pub static mut G: Ghost = Ghost {
		argv_invalid_seen: false, is_tty: false, exit_code: -1, at_exit: None,
		stdout_dev: 0, stdout_fail_at: usize::MAX, stdout_fail_pipe: false, stdout_failed: false,
		stderr_writes: 0, sigpipe_dfl: false,
		calls: [Call { kind: Kind::Stdin, from: 0, ok: false, wrote: 0 }; 3], ncalls: 0,
		flushes_after_call: [false; 3], produced_ok: 0, stdin_opens: 0,
	};
	pub fn terminate(code: i32) -> ! {
		unsafe {
			G.exit_code = code;
			if let Some(f) = G.at_exit { f(code) }
		}
		#[cfg(kani)]
		kani::assume(false);
		loop {}
	}
}

pub mod env {
	pub fn args_os() -> std::vec::IntoIter<std::ffi::OsString> { Vec::new().into_iter() }
}

pub mod process {
	pub fn exit(code: i32) -> ! { crate::ghost::terminate(code) }
}

pub mod fs {
	use std::io;
	pub struct File(());
	impl File {
		pub fn open<P: AsRef<std::path::Path>>(_p: P) -> io::Result<File> {
			#[cfg(kani)]
			if kani::any() { return Err(io::Error::from(io::ErrorKind::NotFound)); }
			Ok(File(()))
		}
	}
	impl io::Read for File {
		fn read(&mut self, _b: &mut [u8]) -> io::Result<usize> { Ok(0) }
	}
}

pub mod io {
	pub use std::io::{BufWriter, Error, ErrorKind, IoSlice, Read, Result, Write};
	use crate::ghost::G;

	pub trait IsTerminal { fn is_terminal(&self) -> bool; }

	pub struct Stdout(());
	pub struct StdoutLock(());
	pub fn stdout() -> Stdout { Stdout(()) }
	impl Stdout { pub fn lock(&self) -> StdoutLock { StdoutLock(()) } }
	impl IsTerminal for Stdout { fn is_terminal(&self) -> bool { unsafe { G.is_tty } } }
	impl Write for StdoutLock {
		fn write(&mut self, buf: &[u8]) -> Result<usize> {
			unsafe {
				if G.stdout_dev >= G.stdout_fail_at {
					G.stdout_failed = true;
					return Err(Error::from(if G.stdout_fail_pipe { ErrorKind::BrokenPipe } else { ErrorKind::StorageFull }));
				}
				let room = G.stdout_fail_at - G.stdout_dev;
				let n = if buf.len() < room { buf.len() } else { room };
				G.stdout_dev += n;
				Ok(n)
			}
		}
		fn flush(&mut self) -> Result<()> { Ok(()) }
	}
	// help / version text goes straight to the locked handle via write!/writeln!
	impl StdoutLock {
		pub fn write_fmt(&mut self, _a: std::fmt::Arguments<'_>) -> Result<()> {
			self.write(b"x").map(|_| ())
		}
	}

	pub struct Stderr(());
	pub struct StderrLock(());
	pub fn stderr() -> Stderr { Stderr(()) }
	impl Stderr { pub fn lock(&self) -> StderrLock { StderrLock(()) } }
	impl Write for StderrLock {
		fn write(&mut self, buf: &[u8]) -> Result<usize> { unsafe { G.stderr_writes += 1; } Ok(buf.len()) }
		fn flush(&mut self) -> Result<()> { Ok(()) }
		fn write_fmt(&mut self, _a: std::fmt::Arguments<'_>) -> Result<()> { unsafe { G.stderr_writes += 1; } Ok(()) }
	}

	pub struct Stdin(());
	pub struct StdinLock(());
	pub fn stdin() -> Stdin { Stdin(()) }
	impl Stdin { pub fn lock(&self) -> StdinLock { unsafe { G.stdin_opens += 1; } StdinLock(()) } }
	impl Read for StdinLock { fn read(&mut self, _b: &mut [u8]) -> Result<usize> { Ok(0) } }
}
