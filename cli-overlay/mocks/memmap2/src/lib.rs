use std::io;
pub struct Mmap(());
pub enum Advice { Sequential, WillNeed }
impl Mmap {
	pub unsafe fn map(_f: &mstd::fs::File) -> io::Result<Mmap> {
		if kani::any() { Ok(Mmap(())) } else { Err(io::Error::from(io::ErrorKind::Other)) }
	}
	pub fn advise(&self, _a: Advice) -> io::Result<()> { Ok(()) }
}
impl std::ops::Deref for Mmap { type Target = [u8]; fn deref(&self) -> &[u8] { &[] } }
