//! Model of the xt library surface used by the CLI: records calls, writes a few bytes, may fail.
#![allow(static_mut_refs)]
use mstd::ghost::{Call, Kind, G};
use std::fmt;
use std::io::{self, Read, Write};

#[derive(Copy, Clone, PartialEq, Eq)]
#[non_exhaustive]
pub enum Format { Json, Msgpack, Toml, Yaml }
impl fmt::Display for Format { fn fmt(&self, _f: &mut fmt::Formatter) -> fmt::Result { Ok(()) } }

#[derive(Debug)]
pub struct Error(());
impl fmt::Display for Error { fn fmt(&self, _f: &mut fmt::Formatter) -> fmt::Result { Ok(()) } }
pub type Result<T> = std::result::Result<T, Error>;

pub struct Translator<W: Write> { w: W, pub to: Format }

fn code(f: Option<Format>) -> u8 {
	match f { None => 0, Some(Format::Json) => 1, Some(Format::Msgpack) => 2, Some(Format::Toml) => 3, Some(Format::Yaml) => 4 }
}

impl<W: Write> Translator<W> {
	pub fn new(output: W, to: Format) -> Translator<W> { Translator { w: output, to } }
	fn go(&mut self, kind: Kind, from: Option<Format>) -> Result<()> {
		let n: usize = kani::any();
		kani::assume(n <= 2);
		let wrote_ok = self.w.write_all(&[0u8; 2][..n]).is_ok();
		let ok = wrote_ok && kani::any::<bool>();
		unsafe {
			if G.ncalls < 3 { G.calls[G.ncalls] = Call { kind, from: code(from), ok, wrote: n }; }
			G.ncalls += 1;
			if ok { G.produced_ok += n; }
		}
		if ok { Ok(()) } else { Err(Error(())) }
	}
	pub fn translate_slice(&mut self, _input: &[u8], from: Option<Format>) -> Result<()> { self.go(Kind::Mmap, from) }
	pub fn translate_reader<R: Read>(&mut self, _input: R, from: Option<Format>) -> Result<()> {
		let k = if std::any::type_name::<R>().ends_with("StdinLock") { Kind::Stdin } else { Kind::File };
		self.go(k, from)
	}
	pub fn flush(&mut self) -> io::Result<()> {
		unsafe { if G.ncalls >= 1 && G.ncalls <= 3 { G.flushes_after_call[G.ncalls - 1] = true; } }
		self.w.flush()
	}
}
