//! Behavioural model of the part of serde_yaml that xt uses (DESIGN.md 5.I).
//!
//! `Deserializer::from_str` records the text it is given (ghost) and iterates over the
//! documents of the xtmodel token language (one per non-blank byte; b'!' fails when it is
//! deserialized; a text without any document yields ONE void document that visits `none`, as the
//! real crate's Loader does). The serializer writes tokens followed by a newline, as YAML documents end
//! with one.
#![allow(static_mut_refs)]
use std::fmt;
use std::io;
pub use xtmodel;
pub use xtmodel::ghost;
use xtmodel::{is_blank, ModelErr, TokDe};

#[derive(Debug)]
pub enum Error {
	IoWrite,
	Syntax,
	Custom,
}
impl fmt::Display for Error {
	fn fmt(&self, _: &mut fmt::Formatter) -> fmt::Result { Ok(()) }
}
impl std::error::Error for Error {}
impl serde::de::Error for Error {
	fn custom<T: fmt::Display>(_: T) -> Self { Error::Custom }
}
impl serde::ser::Error for Error {
	fn custom<T: fmt::Display>(_: T) -> Self { Error::Custom }
}
impl ModelErr for Error {
	fn io(e: io::Error) -> Self {
		std::mem::forget(e);
		Error::IoWrite
	}
	fn syntax() -> Self { Error::Syntax }
}
pub type Result<T> = std::result::Result<T, Error>;

pub struct Deserializer<'de> {
	s: &'de [u8],
	pos: usize,
	doc: Option<u8>,
	void: bool,
	yielded: usize,
}
impl<'de> Deserializer<'de> {
	pub fn from_str(s: &'de str) -> Self {
		unsafe { ghost::DESERIALIZERS += 1 };
		ghost::note_parser(3);
		ghost::record_text(s.as_bytes());
		Deserializer { s: s.as_bytes(), pos: 0, doc: None, void: false, yielded: 0 }
	}
}
impl<'de> Iterator for Deserializer<'de> {
	type Item = Deserializer<'de>;
	fn next(&mut self) -> Option<Deserializer<'de>> {
		while self.pos < self.s.len() && is_blank(self.s[self.pos]) {
			self.pos += 1;
		}
		if self.pos >= self.s.len() {
			// serde_yaml's Loader hands out ONE empty document for a stream that contains none (so that
			// from_str::<()>("") works); deserializing it visits `none`
			if self.yielded == 0 {
				self.yielded = 1;
				return Some(Deserializer { s: &[], pos: 0, doc: None, void: true, yielded: 0 });
			}
			return None;
		}
		let t = self.s[self.pos];
		self.pos += 1;
		self.yielded += 1;
		Some(Deserializer { s: &[], pos: 0, doc: Some(t), void: false, yielded: 0 })
	}
}
impl<'de> serde::Deserializer<'de> for Deserializer<'de> {
	type Error = Error;
	fn deserialize_any<V: serde::de::Visitor<'de>>(mut self, v: V) -> Result<V::Value> {
		// used directly (not through the iterator): the first document of the text
		if self.void {
			return serde::Deserializer::deserialize_any(TokDe::<Error>::void(), v);
		}
		let t = match self.doc {
			Some(t) => Some(t),
			None => self.next().and_then(|d| d.doc),
		};
		match t {
			Some(t) => serde::Deserializer::deserialize_any(TokDe::<Error>::new(t), v),
			None => serde::Deserializer::deserialize_any(TokDe::<Error>::void(), v),
		}
	}
	serde::forward_to_deserialize_any! {
		bool i8 i16 i32 i64 i128 u8 u16 u32 u64 u128 f32 f64 char str string
		bytes byte_buf option unit unit_struct newtype_struct seq tuple
		tuple_struct map struct enum identifier ignored_any
	}
}

pub struct Serializer<W: io::Write>(xtmodel::TokSer<W, Error>);
impl<W: io::Write> Serializer<W> {
	pub fn new(w: W) -> Self {
		Serializer(xtmodel::TokSer::new(w))
	}
}
macro_rules! fwd {
	($($name:ident($($arg:ident: $ty:ty),*);)*) => {
		$(fn $name(self, $($arg: $ty),*) -> Result<()> {
			(&mut self.0).$name($($arg),*)?;
			io::Write::write_all(&mut self.0.w, b"\n").map_err(<Error as ModelErr>::io)
		})*
	};
}
impl<'a, W: io::Write> serde::Serializer for &'a mut Serializer<W> {
	type Ok = ();
	type Error = Error;
	type SerializeSeq = YColl<'a, W>;
	type SerializeTuple = serde::ser::Impossible<(), Error>;
	type SerializeTupleStruct = serde::ser::Impossible<(), Error>;
	type SerializeTupleVariant = serde::ser::Impossible<(), Error>;
	type SerializeMap = YColl<'a, W>;
	type SerializeStruct = serde::ser::Impossible<(), Error>;
	type SerializeStructVariant = serde::ser::Impossible<(), Error>;
	fwd! {
		serialize_bool(v: bool); serialize_i8(v: i8); serialize_i16(v: i16); serialize_i32(v: i32); serialize_i64(v: i64);
		serialize_u8(v: u8); serialize_u16(v: u16); serialize_u32(v: u32); serialize_u64(v: u64);
		serialize_f32(v: f32); serialize_f64(v: f64); serialize_char(v: char); serialize_str(v: &str);
		serialize_none(); serialize_unit();
	}
	fn serialize_bytes(self, _: &[u8]) -> Result<()> { Err(Error::Syntax) } // YAML has no binary
	fn serialize_some<T: ?Sized + serde::Serialize>(self, v: &T) -> Result<()> { v.serialize(self) }
	fn serialize_unit_struct(self, _: &'static str) -> Result<()> { self.serialize_unit() }
	fn serialize_unit_variant(self, _: &'static str, _: u32, _: &'static str) -> Result<()> { self.serialize_unit() }
	fn serialize_newtype_struct<T: ?Sized + serde::Serialize>(self, _: &'static str, v: &T) -> Result<()> { v.serialize(self) }
	fn serialize_newtype_variant<T: ?Sized + serde::Serialize>(self, _: &'static str, _: u32, _: &'static str, v: &T) -> Result<()> { v.serialize(self) }
	fn serialize_seq(self, n: Option<usize>) -> Result<YColl<'a, W>> {
		Ok(YColl { inner: (&mut self.0).serialize_seq(n)? })
	}
	fn serialize_tuple(self, _: usize) -> Result<Self::SerializeTuple> { Err(Error::Syntax) }
	fn serialize_tuple_struct(self, _: &'static str, _: usize) -> Result<Self::SerializeTupleStruct> { Err(Error::Syntax) }
	fn serialize_tuple_variant(self, _: &'static str, _: u32, _: &'static str, _: usize) -> Result<Self::SerializeTupleVariant> { Err(Error::Syntax) }
	fn serialize_map(self, n: Option<usize>) -> Result<YColl<'a, W>> {
		Ok(YColl { inner: (&mut self.0).serialize_map(n)? })
	}
	fn serialize_struct(self, _: &'static str, _: usize) -> Result<Self::SerializeStruct> { Err(Error::Syntax) }
	fn serialize_struct_variant(self, _: &'static str, _: u32, _: &'static str, _: usize) -> Result<Self::SerializeStructVariant> { Err(Error::Syntax) }
}
pub struct YColl<'a, W: io::Write> {
	inner: xtmodel::TokColl<'a, W, Error>,
}
impl<'a, W: io::Write> serde::ser::SerializeSeq for YColl<'a, W> {
	type Ok = ();
	type Error = Error;
	fn serialize_element<T: ?Sized + serde::Serialize>(&mut self, v: &T) -> Result<()> {
		serde::ser::SerializeSeq::serialize_element(&mut self.inner, v)
	}
	fn end(self) -> Result<()> {
		serde::ser::SerializeSeq::end(self.inner)
	}
}
impl<'a, W: io::Write> serde::ser::SerializeMap for YColl<'a, W> {
	type Ok = ();
	type Error = Error;
	fn serialize_key<T: ?Sized + serde::Serialize>(&mut self, v: &T) -> Result<()> {
		serde::ser::SerializeMap::serialize_key(&mut self.inner, v)
	}
	fn serialize_value<T: ?Sized + serde::Serialize>(&mut self, v: &T) -> Result<()> {
		serde::ser::SerializeMap::serialize_value(&mut self.inner, v)
	}
	fn end(self) -> Result<()> {
		serde::ser::SerializeMap::end(self.inner)
	}
}

pub fn to_writer<W: io::Write, T: ?Sized + serde::Serialize>(w: W, v: &T) -> Result<()> {
	let mut s = Serializer::new(w);
	v.serialize(&mut s)
}
