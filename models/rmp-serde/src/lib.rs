//! Behavioural model of the part of rmp-serde 1.1.2 that xt uses (DESIGN.md 5.I).
//!
//! Envelope: a deserializer consumes at least one byte of its input and then either hands
//! ONE value to the visitor (the first byte as u8, unit or bool) or returns any variant of
//! `decode::Error`. `InvalidMarkerRead`/`InvalidDataRead` carry either the error the
//! source reader itself returned, or - exactly when the input is exhausted - the synthetic
//! `UnexpectedEof` that rmp creates ("failed to fill whole buffer"). `set_max_depth` is
//! recorded. The model never reads past what a real deserializer could read (<= 2 bytes).
#![allow(static_mut_refs)]
use std::fmt;
use std::io::{self, Read};
pub use xtmodel;
pub use xtmodel::ghost;
use xtmodel::ModelErr;

pub mod decode {
	use super::*;
	#[derive(Debug)]
	pub enum Error {
		InvalidMarkerRead(io::Error),
		InvalidDataRead(io::Error),
		TypeMismatch(rmp::Marker),
		OutOfRange,
		LengthMismatch(u32),
		Uncategorized(String),
		Syntax(String),
		Utf8Error(std::str::Utf8Error),
		DepthLimitExceeded,
	}
	impl fmt::Display for Error {
		fn fmt(&self, _: &mut fmt::Formatter) -> fmt::Result { Ok(()) }
	}
	impl std::error::Error for Error {}
	impl serde::de::Error for Error {
		fn custom<T: fmt::Display>(_: T) -> Self { Error::Syntax(String::new()) }
	}
}
pub mod encode {
	use super::*;
	#[derive(Debug)]
	pub struct ValueWriteError;
	#[derive(Debug)]
	pub enum Error {
		/// the real variant carries the I/O error; xt never looks inside, and owning an io::Error
		/// here would put its drop glue into every instantiation of the transcoder
		InvalidValueWrite(ValueWriteError),
		UnknownLength,
		InvalidDataModel(&'static str),
		DepthLimitExceeded,
		Syntax(String),
	}
	impl fmt::Display for Error {
		fn fmt(&self, _: &mut fmt::Formatter) -> fmt::Result { Ok(()) }
	}
	impl std::error::Error for Error {}
	impl serde::ser::Error for Error {
		fn custom<T: fmt::Display>(_: T) -> Self { Error::Syntax(String::new()) }
	}
	impl serde::de::Error for Error {
		fn custom<T: fmt::Display>(_: T) -> Self { Error::Syntax(String::new()) }
	}
	impl ModelErr for Error {
		fn io(e: io::Error) -> Self {
			// the payload is never inspected by xt; dropping it symbolically is what makes CBMC explode
			xtmodel::stash_io(e);
			Error::InvalidValueWrite(ValueWriteError)
		}
		fn syntax() -> Self { Error::InvalidDataModel("model") }
	}
}

pub struct Deserializer<R> {
	rd: R,
	depth: Option<usize>,
}
pub struct ReadReader<R>(R);
pub struct ReadRefReader<'a>(&'a [u8]);

pub trait Src {
	/// Ok(Some(byte)), Ok(None) at end of input, Err for a source error
	fn take1(&mut self) -> io::Result<Option<u8>>;
}
impl<R: Read> Src for ReadReader<R> {
	fn take1(&mut self) -> io::Result<Option<u8>> {
		let mut b = [0u8; 1];
		match self.0.read(&mut b) {
			Ok(0) => Ok(None),
			Ok(_) => Ok(Some(b[0])),
			Err(e) => {
				unsafe { ghost::SOURCE_IO_ERROR = true };
				Err(e)
			}
		}
	}
}
impl<'a> Src for ReadRefReader<'a> {
	fn take1(&mut self) -> io::Result<Option<u8>> {
		if self.0.is_empty() {
			Ok(None)
		} else {
			let b = self.0[0];
			self.0 = &self.0[1..];
			Ok(Some(b))
		}
	}
}

impl<R: Read> Deserializer<ReadReader<R>> {
	pub fn new(rd: R) -> Self {
		unsafe { ghost::DESERIALIZERS += 1 };
		ghost::note_parser(1);
		Deserializer { rd: ReadReader(rd), depth: None }
	}
}
impl<'a> Deserializer<ReadRefReader<'a>> {
	pub fn from_read_ref(rd: &'a [u8]) -> Self {
		unsafe { ghost::DESERIALIZERS += 1 };
		ghost::note_parser(1);
		ghost::record_text(rd);
		Deserializer { rd: ReadRefReader(rd), depth: None }
	}
}
impl<R> Deserializer<R> {
	pub fn set_max_depth(&mut self, d: usize) {
		self.depth = Some(d);
		unsafe { ghost::DEPTH_SEEN = d };
	}
}

fn eof() -> io::Error {
	io::Error::from(io::ErrorKind::UnexpectedEof)
}

impl<'de, 'a, R: Src> serde::Deserializer<'de> for &'a mut Deserializer<R> {
	type Error = decode::Error;
	fn deserialize_any<V: serde::de::Visitor<'de>>(self, v: V) -> Result<V::Value, decode::Error> {
		unsafe {
			match self.depth {
				None => ghost::USED_WITHOUT_DEPTH = true,
				Some(d) => ghost::DEPTH_SEEN = d,
			}
		}
		let marker = match self.rd.take1() {
			Err(e) => return Err(decode::Error::InvalidMarkerRead(e)),
			Ok(None) => return Err(decode::Error::InvalidMarkerRead(eof())),
			Ok(Some(b)) => b,
		};
		// zero or one payload byte
		if kani::any() {
			match self.rd.take1() {
				Err(e) => return Err(decode::Error::InvalidDataRead(e)),
				Ok(None) => return Err(decode::Error::InvalidDataRead(eof())),
				Ok(Some(_)) => {}
			}
		}
		match kani::any::<u8>() % 6 {
			0 => {
				unsafe { ghost::DOCS += 1 };
				v.visit_unit()
			}
			1 | 2 => {
				unsafe { ghost::DOCS += 1 };
				v.visit_u8(marker)
			}
			3 => Err(decode::Error::DepthLimitExceeded),
			4 => Err(decode::Error::TypeMismatch(rmp::Marker::Reserved)),
			_ => Err(decode::Error::LengthMismatch(kani::any())),
		}
	}
	serde::forward_to_deserialize_any! {
		bool i8 i16 i32 i64 i128 u8 u16 u32 u64 u128 f32 f64 char str string
		bytes byte_buf option unit unit_struct newtype_struct seq tuple
		tuple_struct map struct enum identifier ignored_any
	}
}

pub type Serializer<W> = xtmodel::TokSer<W, encode::Error>;
