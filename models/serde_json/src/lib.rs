//! Behavioural model of the part of serde_json that xt uses (DESIGN.md 5.I).
//!
//! Token language (xtmodel): a document is one non-blank byte, b'!' is a syntax error,
//! blanks separate documents. `Deserializer::end` succeeds only when nothing but blanks is
//! left; a reader error becomes an `Error` with `is_io() == true` that converts back into
//! that `io::Error`.
#![allow(static_mut_refs)]
use std::fmt;
use std::io::{self, Read};
use std::marker::PhantomData;
pub use xtmodel;
pub use xtmodel::ghost;
use xtmodel::{is_blank, ModelErr, TokDe};

#[derive(Debug)]
pub enum Error {
	/// the reader's own error is parked in xtmodel::IO_STASH
	Io,
	IoWrite,
	Syntax,
	Eof,
	Custom,
}
impl Error {
	pub fn is_io(&self) -> bool {
		matches!(self, Error::Io | Error::IoWrite)
	}
}
impl From<Error> for io::Error {
	fn from(e: Error) -> io::Error {
		match e {
			Error::Io => xtmodel::take_io(),
			Error::Eof => io::Error::from(io::ErrorKind::UnexpectedEof),
			_ => io::Error::from(io::ErrorKind::InvalidData),
		}
	}
}
impl fmt::Display for Error {
	fn fmt(&self, _: &mut fmt::Formatter) -> fmt::Result { Ok(()) }
}
impl std::error::Error for Error {}
impl serde::de::Error for Error {
	fn custom<T: fmt::Display>(_: T) -> Self { Error::Custom }
}
impl serde::ser::Error for Error {
	fn custom<T: fmt::Display>(_: T) -> Self { Error::Custom }
}
impl ModelErr for Error {
	fn io(e: io::Error) -> Self {
		std::mem::forget(e); // serializer-side: the payload is never inspected by xt
		Error::IoWrite
	}
	fn syntax() -> Self { Error::Syntax }
}
pub type Result<T> = std::result::Result<T, Error>;

pub trait ReadTok {
	fn peek(&mut self) -> Result<Option<u8>>;
	fn bump(&mut self);
}
pub struct StrRead<'a> {
	s: &'a [u8],
	pos: usize,
}
pub struct IoRead<R> {
	r: R,
	ahead: Option<u8>,
}
impl<'a> ReadTok for StrRead<'a> {
	fn peek(&mut self) -> Result<Option<u8>> {
		Ok(if self.pos < self.s.len() { Some(self.s[self.pos]) } else { None })
	}
	fn bump(&mut self) {
		self.pos += 1;
	}
}
impl<R: Read> ReadTok for IoRead<R> {
	fn peek(&mut self) -> Result<Option<u8>> {
		if self.ahead.is_none() {
			let mut b = [0u8; 1];
			match self.r.read(&mut b) {
				Ok(0) => return Ok(None),
				Ok(_) => self.ahead = Some(b[0]),
				Err(e) => {
					unsafe { ghost::SOURCE_IO_ERROR = true };
					xtmodel::stash_io(e);
					return Err(Error::Io);
				}
			}
		}
		Ok(self.ahead)
	}
	fn bump(&mut self) {
		self.ahead = None;
	}
}

pub struct Deserializer<R> {
	rd: R,
}
impl<'a> Deserializer<StrRead<'a>> {
	pub fn from_str(s: &'a str) -> Self {
		unsafe { ghost::DESERIALIZERS += 1 };
		ghost::note_parser(2);
		ghost::record_text(s.as_bytes());
		Deserializer { rd: StrRead { s: s.as_bytes(), pos: 0 } }
	}
}
impl<R: Read> Deserializer<IoRead<R>> {
	pub fn from_reader(r: R) -> Self {
		unsafe { ghost::DESERIALIZERS += 1 };
		ghost::note_parser(2);
		Deserializer { rd: IoRead { r, ahead: None } }
	}
}
impl<R: ReadTok> Deserializer<R> {
	fn skip_blanks(&mut self) -> Result<Option<u8>> {
		loop {
			match self.rd.peek()? {
				Some(b) if is_blank(b) => self.rd.bump(),
				other => return Ok(other),
			}
		}
	}
	/// Ok(()) iff only blanks remain.
	pub fn end(&mut self) -> Result<()> {
		match self.skip_blanks()? {
			None => Ok(()),
			Some(_) => Err(Error::Syntax),
		}
	}
	pub fn into_iter<'de, T: serde::Deserialize<'de>>(self) -> StreamDeserializer<'de, R, T> {
		StreamDeserializer { de: self, failed: false, _t: PhantomData }
	}
}
impl<'de, 'a, R: ReadTok> serde::Deserializer<'de> for &'a mut Deserializer<R> {
	type Error = Error;
	fn deserialize_any<V: serde::de::Visitor<'de>>(self, v: V) -> Result<V::Value> {
		match self.skip_blanks()? {
			None => Err(Error::Eof),
			Some(t) => {
				self.rd.bump();
				serde::Deserializer::deserialize_any(TokDe::<Error>::new(t), v)
			}
		}
	}
	serde::forward_to_deserialize_any! {
		bool i8 i16 i32 i64 i128 u8 u16 u32 u64 u128 f32 f64 char str string
		bytes byte_buf option unit unit_struct newtype_struct seq tuple
		tuple_struct map struct enum identifier ignored_any
	}
}

pub struct StreamDeserializer<'de, R, T> {
	de: Deserializer<R>,
	failed: bool,
	_t: PhantomData<(&'de (), T)>,
}
impl<'de, R: ReadTok, T: serde::Deserialize<'de>> Iterator for StreamDeserializer<'de, R, T> {
	type Item = Result<T>;
	fn next(&mut self) -> Option<Result<T>> {
		if self.failed {
			return None;
		}
		match self.de.skip_blanks() {
			Ok(None) => None,
			Ok(Some(_)) => {
				let r = T::deserialize(&mut self.de);
				if r.is_err() {
					self.failed = true;
				}
				Some(r)
			}
			Err(e) => {
				self.failed = true;
				Some(Err(e))
			}
		}
	}
}

pub type Serializer<W> = xtmodel::TokSer<W, Error>;

pub fn to_writer<W: io::Write, T: ?Sized + serde::Serialize>(w: W, v: &T) -> Result<()> {
	let mut s = Serializer::new(w);
	v.serialize(&mut s)
}
