//! Shared pieces of the behavioural dependency models (DESIGN.md 5.I, E2-dep).
//!
//! The models replace third-party parser/printer crates, which cannot be executed
//! symbolically (DESIGN.md section 3), by small deterministic "token" formats plus ghost
//! state, so that xt's own glue code (document loops, framing, error mapping, routing) can
//! be compiled unmodified against them and model-checked.
//!
//! Token language shared by all text models: a document is one byte that is not a blank
//! (b' ' or b'\n'); `b'!'` is a syntax error; blanks separate documents.
#![allow(static_mut_refs)]
use std::fmt;
use std::io;
use std::marker::PhantomData;

pub mod ghost {
	/// number of deserializers constructed / documents handed to a visitor
	pub static mut DESERIALIZERS: usize = 0;
	pub static mut DOCS: usize = 0;
	/// the harness reader reported an error (set by the models' reader adapters)
	pub static mut SOURCE_IO_ERROR: bool = false;
	/// text / slices handed to a model parser, in order (up to 4, first 8 bytes each)
	pub static mut TEXTS: [[u8; 8]; 4] = [[0; 8]; 4];
	pub static mut TEXT_LENS: [usize; 4] = [0; 4];
	pub static mut TEXT_PTRS: [usize; 4] = [0; 4];
	pub static mut NTEXTS: usize = 0;
	/// rmp-serde: depth limits
	pub static mut USED_WITHOUT_DEPTH: bool = false;
	pub static mut DEPTH_SEEN: usize = 0;

	/// which model parser was constructed, in order: 1 MessagePack, 2 JSON, 3 YAML, 4 TOML
	pub static mut PARSERS: [u8; 4] = [0; 4];
	pub static mut NPARSERS: usize = 0;
	pub fn note_parser(id: u8) {
		unsafe {
			if NPARSERS < 4 {
				PARSERS[NPARSERS] = id;
			}
			NPARSERS += 1;
		}
	}

	pub fn record_text(b: &[u8]) {
		unsafe {
			if NTEXTS < 4 {
				let mut i = 0;
				while i < b.len() && i < 8 {
					TEXTS[NTEXTS][i] = b[i];
					i += 1;
				}
				TEXT_LENS[NTEXTS] = b.len();
				TEXT_PTRS[NTEXTS] = b.as_ptr() as usize;
			}
			NTEXTS += 1;
		}
	}
}

/// I/O errors are parked here instead of being stored inside the model error enums: an enum that
/// owns an `io::Error` drags the drop glue of `Box<dyn Error>` into every instantiation of xt's
/// transcoder, and CBMC's over-approximate vtable dispatch turns that into a recursion.
pub static mut IO_STASH: Option<io::Error> = None;
pub fn stash_io(e: io::Error) {
	unsafe {
		let old = IO_STASH.replace(e);
		std::mem::forget(old);
	}
}
pub fn take_io() -> io::Error {
	unsafe { IO_STASH.take().unwrap_or_else(|| io::Error::from(io::ErrorKind::Other)) }
}

pub fn is_blank(b: u8) -> bool {
	b == b' ' || b == b'\n'
}

/// What a model error can be built from.
pub trait ModelErr: serde::ser::Error + serde::de::Error {
	fn io(e: io::Error) -> Self;
	fn syntax() -> Self;
}

// -------------------------------------------------------------------------------------------
// token serializer
// -------------------------------------------------------------------------------------------

pub struct TokSer<W, E> {
	pub w: W,
	_e: PhantomData<E>,
}
impl<W: io::Write, E> TokSer<W, E> {
	pub fn new(w: W) -> Self {
		TokSer { w, _e: PhantomData }
	}
}
impl<W: io::Write, E: ModelErr> TokSer<W, E> {
	fn put(&mut self, b: &[u8]) -> Result<(), E> {
		self.w.write_all(b).map_err(E::io)
	}
}

pub struct TokColl<'a, W, E> {
	s: &'a mut TokSer<W, E>,
	close: u8,
}

impl<'a, W: io::Write, E: ModelErr> serde::Serializer for &'a mut TokSer<W, E> {
	type Ok = ();
	type Error = E;
	type SerializeSeq = TokColl<'a, W, E>;
	type SerializeTuple = serde::ser::Impossible<(), E>;
	type SerializeTupleStruct = serde::ser::Impossible<(), E>;
	type SerializeTupleVariant = serde::ser::Impossible<(), E>;
	type SerializeMap = TokColl<'a, W, E>;
	type SerializeStruct = serde::ser::Impossible<(), E>;
	type SerializeStructVariant = serde::ser::Impossible<(), E>;
	fn serialize_bool(self, v: bool) -> Result<(), E> { self.put(if v { b"t" } else { b"f" }) }
	fn serialize_i8(self, v: i8) -> Result<(), E> { self.put(&[v as u8]) }
	fn serialize_i16(self, v: i16) -> Result<(), E> { self.put(&[v as u8]) }
	fn serialize_i32(self, v: i32) -> Result<(), E> { self.put(&[v as u8]) }
	fn serialize_i64(self, v: i64) -> Result<(), E> { self.put(&[v as u8]) }
	fn serialize_u8(self, v: u8) -> Result<(), E> { self.put(&[v]) }
	fn serialize_u16(self, v: u16) -> Result<(), E> { self.put(&[v as u8]) }
	fn serialize_u32(self, v: u32) -> Result<(), E> { self.put(&[v as u8]) }
	fn serialize_u64(self, v: u64) -> Result<(), E> { self.put(&[v as u8]) }
	fn serialize_f32(self, _: f32) -> Result<(), E> { self.put(b"F") }
	fn serialize_f64(self, _: f64) -> Result<(), E> { self.put(b"D") }
	fn serialize_char(self, _: char) -> Result<(), E> { self.put(b"c") }
	fn serialize_str(self, v: &str) -> Result<(), E> { self.put(v.as_bytes()) }
	fn serialize_bytes(self, v: &[u8]) -> Result<(), E> { self.put(v) }
	fn serialize_none(self) -> Result<(), E> { self.put(b"n") }
	fn serialize_some<T: ?Sized + serde::Serialize>(self, v: &T) -> Result<(), E> { v.serialize(self) }
	fn serialize_unit(self) -> Result<(), E> { self.put(b"n") }
	fn serialize_unit_struct(self, _: &'static str) -> Result<(), E> { self.put(b"n") }
	fn serialize_unit_variant(self, _: &'static str, _: u32, _: &'static str) -> Result<(), E> { self.put(b"v") }
	fn serialize_newtype_struct<T: ?Sized + serde::Serialize>(self, _: &'static str, v: &T) -> Result<(), E> { v.serialize(self) }
	fn serialize_newtype_variant<T: ?Sized + serde::Serialize>(self, _: &'static str, _: u32, _: &'static str, v: &T) -> Result<(), E> { v.serialize(self) }
	fn serialize_seq(self, _: Option<usize>) -> Result<TokColl<'a, W, E>, E> {
		self.put(b"[")?;
		Ok(TokColl { s: self, close: b']' })
	}
	fn serialize_tuple(self, _: usize) -> Result<Self::SerializeTuple, E> { Err(E::syntax()) }
	fn serialize_tuple_struct(self, _: &'static str, _: usize) -> Result<Self::SerializeTupleStruct, E> { Err(E::syntax()) }
	fn serialize_tuple_variant(self, _: &'static str, _: u32, _: &'static str, _: usize) -> Result<Self::SerializeTupleVariant, E> { Err(E::syntax()) }
	fn serialize_map(self, _: Option<usize>) -> Result<TokColl<'a, W, E>, E> {
		self.put(b"{")?;
		Ok(TokColl { s: self, close: b'}' })
	}
	fn serialize_struct(self, _: &'static str, _: usize) -> Result<Self::SerializeStruct, E> { Err(E::syntax()) }
	fn serialize_struct_variant(self, _: &'static str, _: u32, _: &'static str, _: usize) -> Result<Self::SerializeStructVariant, E> { Err(E::syntax()) }
}
impl<'a, W: io::Write, E: ModelErr> serde::ser::SerializeSeq for TokColl<'a, W, E> {
	type Ok = ();
	type Error = E;
	fn serialize_element<T: ?Sized + serde::Serialize>(&mut self, v: &T) -> Result<(), E> { v.serialize(&mut *self.s) }
	fn end(self) -> Result<(), E> { self.s.put(&[self.close]) }
}
impl<'a, W: io::Write, E: ModelErr> serde::ser::SerializeMap for TokColl<'a, W, E> {
	type Ok = ();
	type Error = E;
	fn serialize_key<T: ?Sized + serde::Serialize>(&mut self, v: &T) -> Result<(), E> { v.serialize(&mut *self.s) }
	fn serialize_value<T: ?Sized + serde::Serialize>(&mut self, v: &T) -> Result<(), E> { v.serialize(&mut *self.s) }
	fn end(self) -> Result<(), E> { self.s.put(&[self.close]) }
}

// -------------------------------------------------------------------------------------------
// one-token deserializer: hands exactly one value to the visitor
// -------------------------------------------------------------------------------------------

pub struct TokDe<E> {
	pub tok: u8,
	/// the "document" a parser hands out for a stream that contains no document at all (serde_yaml does
	/// this for the first item of its iterator): it visits `none`
	pub void: bool,
	_e: PhantomData<E>,
}
impl<E> TokDe<E> {
	pub fn new(tok: u8) -> Self {
		TokDe { tok, void: false, _e: PhantomData }
	}
	pub fn void() -> Self {
		TokDe { tok: 0, void: true, _e: PhantomData }
	}
}
impl<'de, E: ModelErr> serde::Deserializer<'de> for TokDe<E> {
	type Error = E;
	fn deserialize_any<V: serde::de::Visitor<'de>>(self, v: V) -> Result<V::Value, E> {
		unsafe { ghost::DOCS += 1 };
		if self.void {
			return v.visit_none();
		}
		match self.tok {
			b'!' => Err(E::syntax()),
			b'n' => v.visit_unit(),
			b't' => v.visit_bool(true),
			t => v.visit_u8(t),
		}
	}
	serde::forward_to_deserialize_any! {
		bool i8 i16 i32 i64 i128 u8 u16 u32 u64 u128 f32 f64 char str string
		bytes byte_buf option unit unit_struct newtype_struct seq tuple
		tuple_struct map struct enum identifier ignored_any
	}
}

/// A plain error type for models that need nothing special.
#[derive(Debug)]
pub enum PlainError {
	Io,
	Syntax,
	Custom,
}
impl fmt::Display for PlainError {
	fn fmt(&self, _: &mut fmt::Formatter) -> fmt::Result { Ok(()) }
}
impl std::error::Error for PlainError {}
impl serde::de::Error for PlainError {
	fn custom<T: fmt::Display>(_: T) -> Self { PlainError::Custom }
}
impl serde::ser::Error for PlainError {
	fn custom<T: fmt::Display>(_: T) -> Self { PlainError::Custom }
}
impl ModelErr for PlainError {
	fn io(e: io::Error) -> Self {
		stash_io(e);
		PlainError::Io
	}
	fn syntax() -> Self { PlainError::Syntax }
}
