//! Behavioural model of the part of the toml crate that xt uses (DESIGN.md 5.I).
//!
//! `Value` is built from serde events exactly as far as xt's TOML output depends on it:
//! the root kind, nulls anywhere (refused, as the real crate refuses them) and the number
//! of entries. `to_string_pretty` renders a table as one byte per top-level entry
//! (an empty table renders as the empty string, as in the real crate) and may fail.
//! `Deserializer::new` parses the xtmodel token language: the whole text is ONE document,
//! a table with one entry per non-blank byte; b'!' is a syntax error; b'n' cannot occur
//! (TOML has no null).
#![allow(static_mut_refs)]
use std::fmt;
pub use xtmodel;
pub use xtmodel::ghost;
use xtmodel::is_blank;

pub mod model {
	/// number of Values built / rendered (ghost)
	pub static mut VALUES_BUILT: usize = 0;
	pub static mut RENDERED: usize = 0;
	pub static mut PULLED: usize = 0;
}

pub mod de {
	use super::*;
	#[derive(Debug)]
	pub struct Error;
	impl fmt::Display for Error {
		fn fmt(&self, _: &mut fmt::Formatter) -> fmt::Result { Ok(()) }
	}
	impl std::error::Error for Error {}
	impl serde::de::Error for Error {
		fn custom<T: fmt::Display>(_: T) -> Self { Error }
	}
}
pub mod ser {
	use super::*;
	#[derive(Debug)]
	pub enum Error {
		UnsupportedNone,
		UnsupportedType,
		KeyNotString,
		Custom,
	}
	impl fmt::Display for Error {
		fn fmt(&self, _: &mut fmt::Formatter) -> fmt::Result { Ok(()) }
	}
	impl std::error::Error for Error {}
	impl serde::ser::Error for Error {
		fn custom<T: fmt::Display>(_: T) -> Self { Error::Custom }
	}
}

#[derive(Clone, Copy, Debug, PartialEq, Eq)]
pub struct Table {
	pub entries: u8,
}
pub type Array = u8;

#[derive(Clone, Copy, Debug, PartialEq, Eq)]
pub enum Value {
	String(u8),
	Integer(i64),
	Float(u64),
	Boolean(bool),
	Datetime(u8),
	Array(Array),
	Table(Table),
}

// ---------------------------------------------------------------------------- Value <- events
struct ValueVisitor;
impl<'de> serde::de::Visitor<'de> for ValueVisitor {
	type Value = Value;
	fn expecting(&self, f: &mut fmt::Formatter) -> fmt::Result { f.write_str("any valid TOML value") }
	fn visit_bool<E>(self, v: bool) -> Result<Value, E> { Ok(Value::Boolean(v)) }
	fn visit_i64<E>(self, v: i64) -> Result<Value, E> { Ok(Value::Integer(v)) }
	fn visit_u64<E: serde::de::Error>(self, v: u64) -> Result<Value, E> {
		if v <= i64::MAX as u64 { Ok(Value::Integer(v as i64)) } else { Err(E::custom("u64 value was too large")) }
	}
	fn visit_f64<E>(self, v: f64) -> Result<Value, E> { Ok(Value::Float(v.to_bits())) }
	fn visit_str<E>(self, v: &str) -> Result<Value, E> { Ok(Value::String(v.len() as u8)) }
	// visit_unit / visit_none / visit_bytes are NOT accepted: TOML has no null and no binary
	fn visit_some<D: serde::Deserializer<'de>>(self, d: D) -> Result<Value, D::Error> { serde::Deserialize::deserialize(d) }
	fn visit_seq<A: serde::de::SeqAccess<'de>>(self, mut a: A) -> Result<Value, A::Error> {
		let mut n = 0u8;
		while let Some(_e) = a.next_element::<Value>()? {
			n = n.wrapping_add(1);
		}
		Ok(Value::Array(n))
	}
	fn visit_map<A: serde::de::MapAccess<'de>>(self, mut a: A) -> Result<Value, A::Error> {
		let mut n = 0u8;
		while let Some(_k) = a.next_key::<Key>()? {
			let _v: Value = a.next_value()?;
			n = n.wrapping_add(1);
		}
		Ok(Value::Table(Table { entries: n }))
	}
}
/// map keys must be strings (or the model's one-byte tokens)
struct Key;
impl<'de> serde::Deserialize<'de> for Key {
	fn deserialize<D: serde::Deserializer<'de>>(d: D) -> Result<Key, D::Error> {
		struct KV;
		impl<'de> serde::de::Visitor<'de> for KV {
			type Value = Key;
			fn expecting(&self, f: &mut fmt::Formatter) -> fmt::Result { f.write_str("a string key") }
			fn visit_str<E>(self, _: &str) -> Result<Key, E> { Ok(Key) }
			fn visit_u8<E>(self, _: u8) -> Result<Key, E> { Ok(Key) }
		}
		d.deserialize_any(KV)
	}
}
impl<'de> serde::Deserialize<'de> for Value {
	fn deserialize<D: serde::Deserializer<'de>>(d: D) -> Result<Value, D::Error> {
		unsafe { model::PULLED += 1 };
		let v = d.deserialize_any(ValueVisitor)?;
		unsafe { model::VALUES_BUILT += 1 };
		Ok(v)
	}
}

// ---------------------------------------------------------------------------- Value <- Serialize
pub struct ValueSer;
pub struct CollSer {
	n: u8,
	map: bool,
}
type SR<T> = Result<T, ser::Error>;
impl serde::Serializer for ValueSer {
	type Ok = Value;
	type Error = ser::Error;
	type SerializeSeq = CollSer;
	type SerializeTuple = serde::ser::Impossible<Value, ser::Error>;
	type SerializeTupleStruct = serde::ser::Impossible<Value, ser::Error>;
	type SerializeTupleVariant = serde::ser::Impossible<Value, ser::Error>;
	type SerializeMap = CollSer;
	type SerializeStruct = serde::ser::Impossible<Value, ser::Error>;
	type SerializeStructVariant = serde::ser::Impossible<Value, ser::Error>;
	fn serialize_bool(self, v: bool) -> SR<Value> { Ok(Value::Boolean(v)) }
	fn serialize_i8(self, v: i8) -> SR<Value> { Ok(Value::Integer(v as i64)) }
	fn serialize_i16(self, v: i16) -> SR<Value> { Ok(Value::Integer(v as i64)) }
	fn serialize_i32(self, v: i32) -> SR<Value> { Ok(Value::Integer(v as i64)) }
	fn serialize_i64(self, v: i64) -> SR<Value> { Ok(Value::Integer(v)) }
	fn serialize_u8(self, v: u8) -> SR<Value> { Ok(Value::Integer(v as i64)) }
	fn serialize_u16(self, v: u16) -> SR<Value> { Ok(Value::Integer(v as i64)) }
	fn serialize_u32(self, v: u32) -> SR<Value> { Ok(Value::Integer(v as i64)) }
	fn serialize_u64(self, v: u64) -> SR<Value> {
		if v <= i64::MAX as u64 { Ok(Value::Integer(v as i64)) } else { Err(ser::Error::Custom) }
	}
	fn serialize_f32(self, v: f32) -> SR<Value> { Ok(Value::Float((v as f64).to_bits())) }
	fn serialize_f64(self, v: f64) -> SR<Value> { Ok(Value::Float(v.to_bits())) }
	fn serialize_char(self, _: char) -> SR<Value> { Ok(Value::String(1)) }
	fn serialize_str(self, v: &str) -> SR<Value> { Ok(Value::String(v.len() as u8)) }
	fn serialize_bytes(self, v: &[u8]) -> SR<Value> { Ok(Value::Array(v.len() as u8)) }
	fn serialize_none(self) -> SR<Value> { Err(ser::Error::UnsupportedNone) }
	fn serialize_some<T: ?Sized + serde::Serialize>(self, v: &T) -> SR<Value> { v.serialize(self) }
	fn serialize_unit(self) -> SR<Value> { Err(ser::Error::UnsupportedType) }
	fn serialize_unit_struct(self, _: &'static str) -> SR<Value> { Err(ser::Error::UnsupportedType) }
	fn serialize_unit_variant(self, _: &'static str, _: u32, _: &'static str) -> SR<Value> { Ok(Value::String(1)) }
	fn serialize_newtype_struct<T: ?Sized + serde::Serialize>(self, _: &'static str, v: &T) -> SR<Value> { v.serialize(self) }
	fn serialize_newtype_variant<T: ?Sized + serde::Serialize>(self, _: &'static str, _: u32, _: &'static str, _: &T) -> SR<Value> { Err(ser::Error::UnsupportedType) }
	fn serialize_seq(self, _: Option<usize>) -> SR<CollSer> { Ok(CollSer { n: 0, map: false }) }
	fn serialize_tuple(self, _: usize) -> SR<Self::SerializeTuple> { Err(ser::Error::UnsupportedType) }
	fn serialize_tuple_struct(self, _: &'static str, _: usize) -> SR<Self::SerializeTupleStruct> { Err(ser::Error::UnsupportedType) }
	fn serialize_tuple_variant(self, _: &'static str, _: u32, _: &'static str, _: usize) -> SR<Self::SerializeTupleVariant> { Err(ser::Error::UnsupportedType) }
	fn serialize_map(self, _: Option<usize>) -> SR<CollSer> { Ok(CollSer { n: 0, map: true }) }
	fn serialize_struct(self, _: &'static str, _: usize) -> SR<Self::SerializeStruct> { Err(ser::Error::UnsupportedType) }
	fn serialize_struct_variant(self, _: &'static str, _: u32, _: &'static str, _: usize) -> SR<Self::SerializeStructVariant> { Err(ser::Error::UnsupportedType) }
}
impl serde::ser::SerializeSeq for CollSer {
	type Ok = Value;
	type Error = ser::Error;
	fn serialize_element<T: ?Sized + serde::Serialize>(&mut self, v: &T) -> SR<()> {
		v.serialize(ValueSer)?;
		self.n = self.n.wrapping_add(1);
		Ok(())
	}
	fn end(self) -> SR<Value> { Ok(Value::Array(self.n)) }
}
impl serde::ser::SerializeMap for CollSer {
	type Ok = Value;
	type Error = ser::Error;
	fn serialize_key<T: ?Sized + serde::Serialize>(&mut self, k: &T) -> SR<()> {
		match k.serialize(ValueSer)? {
			Value::String(_) | Value::Integer(_) => Ok(()),
			_ => Err(ser::Error::KeyNotString),
		}
	}
	fn serialize_value<T: ?Sized + serde::Serialize>(&mut self, v: &T) -> SR<()> {
		// the real crate silently drops a map entry whose value serializes as `None`
		match v.serialize(ValueSer) {
			Ok(_) => {
				self.n = self.n.wrapping_add(1);
				Ok(())
			}
			Err(ser::Error::UnsupportedNone) => Ok(()),
			Err(e) => Err(e),
		}
	}
	fn end(self) -> SR<Value> {
		let _ = self.map;
		Ok(Value::Table(Table { entries: self.n }))
	}
}
impl Value {
	pub fn try_from<T: serde::Serialize>(v: T) -> Result<Value, ser::Error> {
		unsafe { model::PULLED += 1 };
		let r = v.serialize(ValueSer)?;
		unsafe { model::VALUES_BUILT += 1 };
		Ok(r)
	}
}

/// One byte per top-level entry; an empty table is the empty document.
pub fn to_string_pretty(t: &Table) -> Result<String, ser::Error> {
	unsafe { model::RENDERED += 1 };
	if kani::any() {
		return Err(ser::Error::Custom);
	}
	let s = match t.entries {
		0 => String::new(),
		1 => String::from("e"),
		_ => String::from("ee"),
	};
	Ok(s)
}

// ---------------------------------------------------------------------------- text -> events
pub struct Deserializer<'a> {
	s: &'a [u8],
}
impl<'a> Deserializer<'a> {
	pub fn new(s: &'a str) -> Self {
		unsafe { ghost::DESERIALIZERS += 1 };
		ghost::note_parser(4);
		ghost::record_text(s.as_bytes());
		Deserializer { s: s.as_bytes() }
	}
}
struct Entries<'a> {
	s: &'a [u8],
	pos: usize,
	cur: u8,
}
impl<'de, 'a> serde::de::MapAccess<'de> for Entries<'a> {
	type Error = de::Error;
	fn next_key_seed<K: serde::de::DeserializeSeed<'de>>(&mut self, seed: K) -> Result<Option<K::Value>, de::Error> {
		while self.pos < self.s.len() && is_blank(self.s[self.pos]) {
			self.pos += 1;
		}
		if self.pos >= self.s.len() {
			return Ok(None);
		}
		self.cur = self.s[self.pos];
		self.pos += 1;
		seed.deserialize(Tok(self.cur)).map(Some)
	}
	fn next_value_seed<V: serde::de::DeserializeSeed<'de>>(&mut self, seed: V) -> Result<V::Value, de::Error> {
		seed.deserialize(Tok(self.cur))
	}
}
struct Tok(u8);
impl<'de> serde::Deserializer<'de> for Tok {
	type Error = de::Error;
	fn deserialize_any<V: serde::de::Visitor<'de>>(self, v: V) -> Result<V::Value, de::Error> {
		match self.0 {
			b't' => v.visit_bool(true),
			t => v.visit_u8(t),
		}
	}
	serde::forward_to_deserialize_any! {
		bool i8 i16 i32 i64 i128 u8 u16 u32 u64 u128 f32 f64 char str string
		bytes byte_buf option unit unit_struct newtype_struct seq tuple
		tuple_struct map struct enum identifier ignored_any
	}
}
impl<'de, 'a> serde::Deserializer<'de> for Deserializer<'a> {
	type Error = de::Error;
	fn deserialize_any<V: serde::de::Visitor<'de>>(self, v: V) -> Result<V::Value, de::Error> {
		// the real parser reads the whole document before it hands anything to the visitor
		let mut i = 0;
		while i < self.s.len() {
			if self.s[i] == b'!' {
				return Err(de::Error);
			}
			i += 1;
		}
		unsafe { ghost::DOCS += 1 };
		v.visit_map(Entries { s: self.s, pos: 0, cur: 0 })
	}
	serde::forward_to_deserialize_any! {
		bool i8 i16 i32 i64 i128 u8 u16 u32 u64 u128 f32 f64 char str string
		bytes byte_buf option unit unit_struct newtype_struct seq tuple
		tuple_struct map struct enum identifier ignored_any
	}
}
