"""Hand-written mutants used by bin/selftest to check that the solver queries (and their native replays) are sensitive.
Each entry: (name, property, harness/group, file, old text, new text). The text must occur exactly once in /repo."""
M = [
    ("seq_stops_after_first_element", "C01", "e3_k20_attribution", "src/transcode/stream.rs",
     "\t\t\t\tOk(Some(())) => {}\n\t\t\t\tErr(de_err) => {\n\t\t\t\t\tself.0.capture_child_error(seed.0);",
     "\t\t\t\tOk(Some(())) => break,\n\t\t\t\tErr(de_err) => {\n\t\t\t\t\tself.0.capture_child_error(seed.0);"),
    ("key_written_as_value", "C01", "e3_k20_attribution", "src/transcode/stream.rs",
     "|ser, key| ser.serialize_key(key)", "|ser, key| ser.serialize_value(key)"),
    # (widening i16 -> serialize_i32 is reported by K20 but is invisible in all four output formats: the native replay
    #  does not reproduce it and the check answers INCONCLUSIVE, which is the intended behaviour for an equivalent mutant)
    ("u64_through_i64", "C01", "e3_k20_attribution", "src/transcode/stream.rs",
     "visit_u64(v: u64) => |ser| ser.serialize_u64(v);", "visit_u64(v: u64) => |ser| ser.serialize_i64(v as i64);"),
    ("value_seed_verdict_dropped", "C11", "e3_k20_attribution", "src/transcode/stream.rs",
     "\t\t\tif let Err(de_err) = de.next_value_seed(&mut value_seed) {\n\t\t\t\tself.0.capture_child_error(value_seed.0);\n\t\t\t\treturn Err(de_err);",
     "\t\t\tif let Err(de_err) = de.next_value_seed(&mut value_seed) {\n\t\t\t\treturn Err(de_err);"),
    ("seq_end_failure_blamed_on_input", "C11", "e3_k20_attribution", "src/transcode/stream.rs",
     "\t\tmatch seq.end() {\n\t\t\tOk(value) => Ok(value),\n\t\t\tErr(ser_err) => {\n\t\t\t\tself.0.capture_error(ErrorSource::Ser, ser_err);",
     "\t\tmatch seq.end() {\n\t\t\tOk(value) => Ok(value),\n\t\t\tErr(ser_err) => {\n\t\t\t\tself.0.capture_error(ErrorSource::De, ser_err);"),
    ("handover_without_rewind", "C09", "e3_k21_handle", "src/input.rs",
     "\tfn rewind_and_take(mut self) -> CaptureReader<R> {\n\t\tself.0.rewind();", "\tfn rewind_and_take(mut self) -> CaptureReader<R> {"),
    ("source_before_captured", "C09", "e3_k21_handle", "src/input.rs",
     "Input::Reader(Box::new(FusedReader::new(cursor).chain(source)))", "Input::Reader(Box::new(FusedReader::new(source).chain(cursor)))"),
    ("empty_check_inverted", "C09", "e3_k21_handle", "src/input.rs",
     "\t\t\t\t} else if cursor.get_ref().is_empty() {", "\t\t\t\t} else if !cursor.get_ref().is_empty() {"),
    ("prefix_half_size", "C09", "e3_k21_handle", "src/input.rs",
     "\t\t\t\tr.capture_up_to_size(size_hint)?;", "\t\t\t\tr.capture_up_to_size(size_hint / 2)?;"),
    ("borrow_eof_inverted", "C09", "e3_k21_handle", "src/input.rs",
     "\t\t\t\tif r.is_source_eof() {\n\t\t\t\t\tRef::Slice(r.captured())", "\t\t\t\tif !r.is_source_eof() {\n\t\t\t\t\tRef::Slice(r.captured())"),
]
